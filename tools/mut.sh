#!/bin/bash
# dev helper: tools/mut.sh <property> <file-relative-to-repo> <python-regex-or-literal old> <new>
# copies /repo/src + Cargo files to /tmp/m1, applies one textual replacement, runs the check against the copy
set -e
P=$1; F=$2; OLD=$3; NEW=$4
rm -rf /tmp/m1; mkdir -p /tmp/m1; rsync -a --exclude target --exclude .git ${MUT_SRC:-/repo}/ /tmp/m1/
python3 - "$F" "$OLD" "$NEW" <<'PY'
import sys
f,old,new=sys.argv[1:4]
p='/tmp/m1/'+f
s=open(p).read()
assert s.count(old)>=1, 'pattern not found'
s=s.replace(old,new,1)
open(p,'w').write(s)
PY
VERIF_REPO=/tmp/m1 VERIF_BASE_REPO=/repo VERIF_NO_EVIDENCE=1 /verif/check $P 2>&1 | grep -E "^(OK|VIOLATION|UNDECIDED|KNOWN)" | cut -c1-260
rm -rf /tmp/m1
