//! vx — mechanical extractor of real deno_graph items into Verus-checkable text.
//!
//! Reads a JSON job on stdin (or file arg), parses the named source files of /repo with `syn`,
//! copies the selected items, applies ONLY the documented rewrite rules (DESIGN.md §3.2, R1..R12)
//! and injects contract text (verbatim, from /verif/contracts) at anchors addressed by function
//! path, loop ordinal, closure ordinal or statement text.  It never edits expressions,
//! conditions, constants, operators, call arguments, match arms or statement order.
//!
//! Output: JSON {items:[{path,text,fingerprint,file,line_start,line_end,rules:{..}}], errors:[..]}

use proc_macro2::{Delimiter, Ident, Span, TokenStream, TokenTree};
use quote::{quote, ToTokens};
use serde_json::{json, Map, Value};
use sha2::{Digest, Sha256};
use std::collections::BTreeMap;
use syn::punctuated::Punctuated;
use syn::spanned::Spanned;
use syn::visit_mut::{self, VisitMut};
use syn::*;

// ---------------------------------------------------------------------------------------------
// printing

struct Printer {
    out: String,
    indent: usize,
    at_line_start: bool,
    prev_joint: bool,
    prev_tok: String,
    soft: bool,
}

impl Printer {
    fn new() -> Self {
        Printer { out: String::new(), indent: 0, at_line_start: true, prev_joint: false, prev_tok: String::new(), soft: false }
    }
    fn newline(&mut self) {
        if !self.at_line_start {
            self.out.push('\n');
            self.at_line_start = true;
        }
        self.prev_joint = false;
        self.prev_tok.clear();
    }
    fn word(&mut self, s: &str, joint: bool) {
        if self.at_line_start {
            for _ in 0..self.indent {
                self.out.push_str("  ");
            }
            self.at_line_start = false;
        } else if !self.prev_joint {
            // tight printing for a few cases to keep lines readable (purely cosmetic)
            let tight_before = matches!(s, "," | ";" | "." | "?" | ")" | "]" | ":");
            let tight_after = matches!(self.prev_tok.as_str(), "(" | "[" | "." | "!" | "&" | "'");
            let call_paren = (s == "(" || s == "[")
                && self.prev_tok.chars().last().map(|c| c.is_alphanumeric() || c == '_' || c == '>' ).unwrap_or(false)
                && !matches!(self.prev_tok.as_str(), "if" | "while" | "match" | "in" | "return" | "let" | "for" | "else" | "mut" | "break" | "as" | "loop" | "move" | "ensures" | "requires" | "invariant" | "decreases");
            if !(tight_before || tight_after || call_paren) {
                self.out.push(' ');
            } else if self.prev_tok == "&" && s == "&" {
                self.out.push(' ');
            } else if self.prev_tok == "!" && s == "=" {
                self.out.push(' ');
            }
        }
        self.out.push_str(s);
        self.prev_joint = joint;
        self.prev_tok = s.to_string();
    }
    fn stream(&mut self, ts: TokenStream) {
        let toks: Vec<TokenTree> = ts.into_iter().collect();
        let n = toks.len();
        for (i, tt) in toks.into_iter().enumerate() {
            match tt {
                TokenTree::Group(g) => {
                    let (o, c) = match g.delimiter() {
                        Delimiter::Parenthesis => ("(", ")"),
                        Delimiter::Brace => ("{", "}"),
                        Delimiter::Bracket => ("[", "]"),
                        Delimiter::None => ("", ""),
                    };
                    if g.delimiter() == Delimiter::Brace {
                        let empty = g.stream().is_empty();
                        self.word("{", false);
                        if !empty {
                            self.indent += 1;
                            self.newline();
                            self.stream(g.stream());
                            self.indent -= 1;
                            self.newline();
                        }
                        // closing brace
                        self.word("}", false);
                        // break the line after `}` unless followed by something that continues the expr
                        let _ = (i, n);
                        self.soft = true;
                    } else {
                        if !o.is_empty() {
                            self.word(o, false);
                        }
                        self.stream(g.stream());
                        if !c.is_empty() {
                            self.word(c, false);
                        }
                    }
                }
                TokenTree::Ident(id) => {
                    let s = id.to_string();
                    self.maybe_break_before(&s);
                    self.word(&s, false);
                }
                TokenTree::Punct(p) => {
                    let s = p.as_char().to_string();
                    self.maybe_break_before(&s);
                    let joint = p.spacing() == proc_macro2::Spacing::Joint;
                    self.word(&s, joint);
                    if s == ";" {
                        self.newline();
                    }
                }
                TokenTree::Literal(l) => {
                    let s = l.to_string();
                    self.maybe_break_before(&s);
                    self.word(&s, false);
                }
            }
        }
    }
}

impl Printer {
    fn maybe_break_before(&mut self, next: &str) {
        if self.soft {
            self.soft = false;
            let cont = matches!(next, "else" | "," | ";" | "." | "?" | ")" | "as" | "=" | "|" | "&" | "+" | "-" | "*" | "/" | "<" | ">" | "!");
            if !cont {
                self.newline();
            }
        }
    }
}

fn print_tokens(ts: TokenStream) -> String {
    let mut p = Printer::new();
    p.stream(ts);
    p.newline();
    p.out
}

fn norm(s: &str) -> String {
    s.chars().filter(|c| !c.is_whitespace()).collect()
}

fn fingerprint(ts: &TokenStream) -> String {
    let s = norm(&ts.to_string());
    let mut h = Sha256::new();
    h.update(s.as_bytes());
    let d = h.finalize();
    d.iter().map(|b| format!("{:02x}", b)).collect()
}

// ---------------------------------------------------------------------------------------------
// markers: verbatim contract text is carried through the token stream as unique identifiers

struct Markers {
    texts: Vec<String>,
}
impl Markers {
    fn new() -> Self { Markers { texts: vec![] } }
    fn mk(&mut self, text: &str) -> Ident {
        let n = self.texts.len();
        self.texts.push(text.to_string());
        Ident::new(&format!("__VXM{}__", n), Span::call_site())
    }
    fn subst(&self, printed: &str) -> String {
        let mut out = String::new();
        for line in printed.lines() {
            let mut l = line.to_string();
            // replace every marker on this line; multi-line texts are re-indented
            loop {
                let Some(pos) = l.find("__VXM") else { break };
                let rest = &l[pos + 5..];
                let end = rest.find("__").unwrap();
                let n: usize = rest[..end].parse().unwrap();
                let indent: String = l.chars().take_while(|c| c.is_whitespace()).collect();
                let text = self.texts[n].trim_end();
                let mut rep = String::new();
                for (i, tl) in text.lines().enumerate() {
                    if i > 0 {
                        rep.push('\n');
                        rep.push_str(&indent);
                        rep.push_str("  ");
                    }
                    rep.push_str(tl.trim_end());
                }
                let before = &l[..pos];
                let after = &l[pos + 5 + end + 2..];
                // marker texts always get their own lines
                let mut nl = String::new();
                if !before.trim().is_empty() { nl.push_str(before.trim_end()); nl.push('\n'); }
                nl.push_str(&indent); nl.push_str("  "); nl.push_str(&rep);
                if !after.trim().is_empty() { nl.push('\n'); nl.push_str(&indent); nl.push_str(after.trim_start()); }
                l = nl;
            }
            out.push_str(&l);
            out.push('\n');
        }
        out
    }
}

// ---------------------------------------------------------------------------------------------
// rule counters

#[derive(Default)]
struct Rules(BTreeMap<String, u64>);
impl Rules {
    fn hit(&mut self, r: &str) { *self.0.entry(r.to_string()).or_insert(0) += 1; }
    fn json(&self) -> Value {
        let mut m = Map::new();
        for (k, v) in &self.0 { m.insert(k.clone(), json!(v)); }
        Value::Object(m)
    }
}

// ---------------------------------------------------------------------------------------------
// R1 attributes / cfg resolution

struct AttrCfg {
    features: Vec<String>,
    keep_derives: Vec<String>,
}

fn cfg_decision(attr: &Attribute, features: &[String]) -> Option<bool> {
    // Some(true) keep item (cfg holds), Some(false) drop item, None = not a cfg we understand
    if !attr.path().is_ident("cfg") { return None; }
    let s = norm(&attr.meta.to_token_stream().to_string());
    // forms: cfg(feature="x"), cfg(not(feature="x")), cfg(test), cfg(not(test)),
    //        cfg(target_arch="wasm32"), cfg(not(target_arch="wasm32"))
    if let Some(rest) = s.strip_prefix("cfg(feature=\"") {
        let f = rest.trim_end_matches("\")");
        return Some(features.iter().any(|x| x == f));
    }
    if let Some(rest) = s.strip_prefix("cfg(not(feature=\"") {
        let f = rest.trim_end_matches("\"))");
        return Some(!features.iter().any(|x| x == f));
    }
    if s == "cfg(test)" { return Some(false); }
    if s == "cfg(not(test))" { return Some(true); }
    if s == "cfg(target_arch=\"wasm32\")" { return Some(false); }
    if s == "cfg(not(target_arch=\"wasm32\"))" { return Some(true); }
    None
}

fn filter_attrs(attrs: &mut Vec<Attribute>, cfg: &AttrCfg, rules: &mut Rules) -> bool {
    // returns false when the carrying item must be dropped (cfg is off)
    let mut keep_item = true;
    let mut out = vec![];
    for a in attrs.drain(..) {
        if let Some(dec) = cfg_decision(&a, &cfg.features) {
            rules.hit("R1.cfg_resolved");
            if !dec { keep_item = false; }
            continue;
        }
        let p = a.path();
        if p.is_ident("derive") {
            // reduce to the allowed subset
            let mut kept: Vec<Path> = vec![];
            let _ = a.parse_nested_meta(|m| {
                let name = m.path.segments.last().unwrap().ident.to_string();
                if cfg.keep_derives.iter().any(|d| *d == name) { kept.push(m.path.clone()); }
                Ok(())
            });
            rules.hit("R1.derive_reduced");
            // `+Name` in the contract's derive list adds a Verus marker derive (e.g. Structural: the
            // derived `==` is structural equality)
            for d in cfg.keep_derives.iter() {
                if let Some(extra) = d.strip_prefix('+') {
                    let id = Ident::new(extra, Span::call_site());
                    kept.push(parse_quote!(#id));
                    rules.hit("R1.verus_marker_derive_added");
                }
            }
            if !kept.is_empty() {
                let attr: Attribute = parse_quote!(#[derive(#(#kept),*)]);
                out.push(attr);
            }
            continue;
        }
        let name = p.segments.last().map(|s| s.ident.to_string()).unwrap_or_default();
        if p.segments.len() == 1 && (name == "vx_loop" || name == "vx_closure") {
            out.push(a);
            continue;
        }
        // everything else is dropped: doc, serde, class, error, allow, inline, must_use, ...
        rules.hit("R1.attr_dropped");
    }
    *attrs = out;
    keep_item
}

struct AttrPass<'a> { cfg: &'a AttrCfg, rules: &'a mut Rules }
impl<'a> VisitMut for AttrPass<'a> {
    fn visit_block_mut(&mut self, b: &mut Block) {
        let mut out = vec![];
        for mut s in b.stmts.drain(..) {
            let keep = match &mut s {
                Stmt::Local(l) => filter_attrs(&mut l.attrs, self.cfg, self.rules),
                Stmt::Expr(e, _) => expr_attrs(e).map(|a| filter_attrs(a, self.cfg, self.rules)).unwrap_or(true),
                Stmt::Macro(m) => filter_attrs(&mut m.attrs, self.cfg, self.rules),
                Stmt::Item(_) => true,
            };
            if keep { out.push(s); }
        }
        b.stmts = out;
        visit_mut::visit_block_mut(self, b);
    }
    fn visit_expr_match_mut(&mut self, m: &mut ExprMatch) {
        let mut arms = vec![];
        for mut a in m.arms.drain(..) {
            if filter_attrs(&mut a.attrs, self.cfg, self.rules) { arms.push(a); }
        }
        m.arms = arms;
        visit_mut::visit_expr_match_mut(self, m);
    }
    fn visit_expr_struct_mut(&mut self, s: &mut ExprStruct) {
        let mut fields = Punctuated::new();
        for mut f in std::mem::take(&mut s.fields).into_iter() {
            if filter_attrs(&mut f.attrs, self.cfg, self.rules) { fields.push(f); }
        }
        s.fields = fields;
        visit_mut::visit_expr_struct_mut(self, s);
    }
    fn visit_expr_mut(&mut self, e: &mut Expr) {
        if let Some(a) = expr_attrs(e) { filter_attrs(a, self.cfg, self.rules); }
        visit_mut::visit_expr_mut(self, e);
    }
    fn visit_pat_mut(&mut self, p: &mut Pat) {
        if let Pat::Struct(ps) = p {
            let mut fields = Punctuated::new();
            for mut f in std::mem::take(&mut ps.fields).into_iter() {
                if filter_attrs(&mut f.attrs, self.cfg, self.rules) { fields.push(f); }
            }
            ps.fields = fields;
        }
        visit_mut::visit_pat_mut(self, p);
    }
}

fn expr_attrs(e: &mut Expr) -> Option<&mut Vec<Attribute>> {
    Some(match e {
        Expr::Array(x) => &mut x.attrs, Expr::Assign(x) => &mut x.attrs, Expr::Async(x) => &mut x.attrs,
        Expr::Await(x) => &mut x.attrs, Expr::Binary(x) => &mut x.attrs, Expr::Block(x) => &mut x.attrs,
        Expr::Break(x) => &mut x.attrs, Expr::Call(x) => &mut x.attrs, Expr::Cast(x) => &mut x.attrs,
        Expr::Closure(x) => &mut x.attrs, Expr::Const(x) => &mut x.attrs, Expr::Continue(x) => &mut x.attrs,
        Expr::Field(x) => &mut x.attrs, Expr::ForLoop(x) => &mut x.attrs, Expr::Group(x) => &mut x.attrs,
        Expr::If(x) => &mut x.attrs, Expr::Index(x) => &mut x.attrs, Expr::Infer(x) => &mut x.attrs,
        Expr::Let(x) => &mut x.attrs, Expr::Lit(x) => &mut x.attrs, Expr::Loop(x) => &mut x.attrs,
        Expr::Macro(x) => &mut x.attrs, Expr::Match(x) => &mut x.attrs, Expr::MethodCall(x) => &mut x.attrs,
        Expr::Paren(x) => &mut x.attrs, Expr::Path(x) => &mut x.attrs, Expr::Range(x) => &mut x.attrs,
        Expr::Reference(x) => &mut x.attrs, Expr::Repeat(x) => &mut x.attrs, Expr::Return(x) => &mut x.attrs,
        Expr::Struct(x) => &mut x.attrs, Expr::Try(x) => &mut x.attrs, Expr::TryBlock(x) => &mut x.attrs,
        Expr::Tuple(x) => &mut x.attrs, Expr::Unary(x) => &mut x.attrs, Expr::Unsafe(x) => &mut x.attrs,
        Expr::While(x) => &mut x.attrs, Expr::Yield(x) => &mut x.attrs,
        _ => return None,
    })
}

// ---------------------------------------------------------------------------------------------
// P0: tag loops and closures with ordinals (source order)

struct TagPass { loops: u64, closures: u64 }
impl VisitMut for TagPass {
    fn visit_expr_mut(&mut self, e: &mut Expr) {
        match e {
            Expr::ForLoop(ExprForLoop { attrs, .. }) | Expr::While(ExprWhile { attrs, .. }) | Expr::Loop(ExprLoop { attrs, .. }) => {
                let n = self.loops;
                self.loops += 1;
                let lit = LitInt::new(&n.to_string(), Span::call_site());
                attrs.push(parse_quote!(#[vx_loop(#lit)]));
            }
            Expr::Closure(c) => {
                let n = self.closures;
                self.closures += 1;
                let lit = LitInt::new(&n.to_string(), Span::call_site());
                c.attrs.push(parse_quote!(#[vx_closure(#lit)]));
            }
            _ => {}
        }
        visit_mut::visit_expr_mut(self, e);
    }
    // nested items keep their own numbering space: do not descend
    fn visit_item_mut(&mut self, _i: &mut Item) {}
}

fn take_ord(attrs: &mut Vec<Attribute>, name: &str) -> Option<u64> {
    let mut found = None;
    attrs.retain(|a| {
        if a.path().is_ident(name) {
            if let Ok(l) = a.parse_args::<LitInt>() { found = l.base10_parse::<u64>().ok(); }
            false
        } else { true }
    });
    found
}
fn peek_ord(attrs: &Vec<Attribute>, name: &str) -> Option<u64> {
    for a in attrs {
        if a.path().is_ident(name) {
            if let Ok(l) = a.parse_args::<LitInt>() { return l.base10_parse::<u64>().ok(); }
        }
    }
    None
}

// ---------------------------------------------------------------------------------------------
// R3: drop logging / debug assertions

struct LogPass<'a> { rules: &'a mut Rules, drop_macros: Vec<String>, drop_nested: Vec<String>, drop_stmts: Vec<String>, dropped: Vec<String> }
fn macro_name(p: &Path) -> String {
    p.segments.iter().map(|s| s.ident.to_string()).collect::<Vec<_>>().join("::")
}
impl<'a> VisitMut for LogPass<'a> {
    fn visit_block_mut(&mut self, b: &mut Block) {
        let mut out = vec![];
        for s in b.stmts.drain(..) {
            let name = match &s {
                Stmt::Macro(m) => Some(macro_name(&m.mac.path)),
                Stmt::Expr(Expr::Macro(m), _) => Some(macro_name(&m.mac.path)),
                _ => None,
            };
            if let Some(n) = name {
                if self.drop_macros.iter().any(|d| *d == n) {
                    self.rules.hit("R3.log_stmt_dropped");
                    continue;
                }
            }
            // @drop: a statement the contract file names explicitly (purely observational code such as progress reporting);
            // every dropped statement is listed in the evidence
            {
                let st = norm(&s.to_token_stream().to_string());
                if let Some(pfx) = self.drop_stmts.iter().find(|d| st.starts_with(&norm(d))) {
                    self.rules.hit("DROP.statement_named_in_contract_file");
                    self.dropped.push(pfx.clone());
                    continue;
                }
            }
            // R23: a nested `fn` that the contract file extracts as an item of its own is removed from the enclosing body
            if let Stmt::Item(Item::Fn(f)) = &s { if self.drop_nested.iter().any(|n| f.sig.ident == n.as_str()) { self.rules.hit("R23.nested_fn_extracted_separately"); continue; } }
            // R20: a `const` item of reference type (lifetime elided) inside a body becomes a `let` with the same
            // initialiser and an explicit 'static lifetime (Verus rejects the elided lifetime); other consts are kept
            if let Stmt::Item(Item::Const(c)) = &s { if matches!(&*c.ty, Type::Reference(r) if r.lifetime.is_none()) {
                let name = &c.ident;
                let mut ty = (*c.ty).clone();
                if let Type::Reference(r) = &mut ty { if r.lifetime.is_none() { r.lifetime = Some(parse_quote!('static)); } }
                let ex = &c.expr;
                self.rules.hit("R20.inner_const_as_let");
                out.push(parse_quote!(let #name: #ty = #ex;));
                continue;
            } }
            // R19: `use` declarations inside a body are dropped (the names are provided by the unit's prelude)
            if matches!(&s, Stmt::Item(Item::Use(_))) { self.rules.hit("R19.inner_use_dropped"); continue; }
            out.push(s);
        }
        b.stmts = out;
        visit_mut::visit_block_mut(self, b);
    }
}

// ---------------------------------------------------------------------------------------------
// R17: `matches!(E, P)` / `matches!(E, P if G)` -> `match E { P => true, _ => false }` (the macro's definition),
// only when the scrutinee contains a closure (so that the closure can be annotated, R12); other uses are left
// to the compiler's own expansion.
struct MatchesArgs { e: Expr, pat: Pat, guard: Option<Expr> }
impl syn::parse::Parse for MatchesArgs {
    fn parse(input: syn::parse::ParseStream) -> Result<Self> {
        let e: Expr = input.parse()?;
        let _: Token![,] = input.parse()?;
        let pat = Pat::parse_multi_with_leading_vert(input)?;
        let guard = if input.peek(Token![if]) { let _: Token![if] = input.parse()?; Some(input.parse::<Expr>()?) } else { None };
        let _ = input.parse::<Option<Token![,]>>();
        Ok(MatchesArgs { e, pat, guard })
    }
}
struct MatchesPass<'a> { rules: &'a mut Rules }
impl<'a> VisitMut for MatchesPass<'a> {
    fn visit_expr_mut(&mut self, e: &mut Expr) {
        if let Expr::Macro(m) = e {
            if macro_name(&m.mac.path) == "matches" && m.mac.tokens.to_string().contains('|') {
                if let Ok(a) = syn::parse2::<MatchesArgs>(m.mac.tokens.clone()) {
                    let has_closure = { struct F(bool); impl<'ast> syn::visit::Visit<'ast> for F { fn visit_expr_closure(&mut self, _c: &'ast ExprClosure) { self.0 = true; } } let mut f = F(false); syn::visit::Visit::visit_expr(&mut f, &a.e); f.0 };
                    if has_closure {
                        let (sc, pat) = (a.e, a.pat);
                        let new: Expr = match a.guard {
                            Some(g) => parse_quote!(match #sc { #pat if #g => true, _ => false }),
                            None => parse_quote!(match #sc { #pat => true, _ => false }),
                        };
                        self.rules.hit("R17.matches_macro_expanded");
                        *e = new;
                    }
                }
            }
        }
        visit_mut::visit_expr_mut(self, e);
    }
    fn visit_item_mut(&mut self, _i: &mut Item) {}
}

// ---------------------------------------------------------------------------------------------
// R21: `unreachable!()` (no arguments) -> `vx_unreachable()`, a prelude function with `requires false`: the claim
// that the point cannot be reached becomes a proof obligation.
struct UnreachablePass<'a> { rules: &'a mut Rules }
impl<'a> VisitMut for UnreachablePass<'a> {
    fn visit_expr_mut(&mut self, e: &mut Expr) {
        // R24: `async move { .. }.boxed_local()` (a future created to be stored, not awaited here) -> `vx_boxed_future()`:
        // the body of the async block is NOT extracted (it runs later, outside this function)
        if let Expr::MethodCall(mc) = e {
            if (mc.method == "boxed_local" || mc.method == "boxed") && matches!(&*mc.receiver, Expr::Async(_)) {
                self.rules.hit("R24.stored_async_block_not_extracted");
                *e = parse_quote!(vx_boxed_future());
                return;
            }
        }
        // R22: `format!(..)` -> `vx_fmt()`: an unspecified String (message texts are not modelled)
        if let Expr::Macro(m) = e {
            if macro_name(&m.mac.path) == "format" {
                self.rules.hit("R22.format_as_unspecified_string");
                *e = parse_quote!(vx_fmt());
                return;
            }
        }
        if let Expr::Macro(m) = e {
            if macro_name(&m.mac.path) == "unreachable" && m.mac.tokens.is_empty() {
                self.rules.hit("R21.unreachable_as_obligation");
                *e = parse_quote!(vx_unreachable());
                return;
            }
        }
        visit_mut::visit_expr_mut(self, e);
    }
    // R26: `assert!(c)`, `assert_eq!(a, b)`, `assert_ne!(a, b)` (statement position; message arguments ignored) ->
    // `vx_assert(c)` / `vx_assert(a == b)` / `vx_assert(a != b)`, a prelude function with `requires c`: the panic
    // site becomes a proof obligation
    fn visit_stmt_mut(&mut self, st: &mut Stmt) {
        if let Stmt::Macro(sm) = st {
            let name = macro_name(&sm.mac.path);
            if name == "assert" || name == "assert_eq" || name == "assert_ne" {
                let parser = syn::punctuated::Punctuated::<Expr, Token![,]>::parse_terminated;
                if let Ok(args) = sm.mac.parse_body_with(parser) {
                    let a: Vec<&Expr> = args.iter().collect();
                    let cond: Option<Expr> = match (name.as_str(), a.len()) {
                        ("assert", n) if n >= 1 => { let c = a[0]; Some(parse_quote!(#c)) }
                        ("assert_eq", n) if n >= 2 => { let (x, y) = (a[0], a[1]); Some(parse_quote!((#x) == (#y))) }
                        ("assert_ne", n) if n >= 2 => { let (x, y) = (a[0], a[1]); Some(parse_quote!((#x) != (#y))) }
                        _ => None,
                    };
                    if let Some(c) = cond {
                        self.rules.hit("R26.assert_as_obligation");
                        let call: Expr = parse_quote!(vx_assert(#c));
                        *st = Stmt::Expr(call, Some(Default::default()));
                    }
                }
            }
        }
        visit_mut::visit_stmt_mut(self, st);
    }
    fn visit_item_mut(&mut self, _i: &mut Item) {}
}

// ---------------------------------------------------------------------------------------------
// R16: `async fn` -> `fn`, `E.await` -> `E` (sequential reading of one future: the function's own
// statements run in program order between suspension points; what other tasks do in between is not
// modelled).  Only applied to items that ask for it (`sync_async` flag in the contract file).

struct AwaitPass<'a> { rules: &'a mut Rules }
impl<'a> VisitMut for AwaitPass<'a> {
    fn visit_expr_mut(&mut self, e: &mut Expr) {
        visit_mut::visit_expr_mut(self, e);
        if let Expr::Await(a) = e {
            self.rules.hit("R16.await_dropped");
            let inner = (*a.base).clone();
            *e = inner;
        }
    }
    fn visit_item_mut(&mut self, _i: &mut Item) {}
}

// ---------------------------------------------------------------------------------------------
// R4: let-chains -> nested if / if-let (else branch duplicated)

struct LetChainPass<'a> { rules: &'a mut Rules }
fn flatten_and(e: Expr, out: &mut Vec<Expr>) {
    match e {
        Expr::Binary(ExprBinary { op: BinOp::And(_), left, right, .. }) => {
            flatten_and(*left, out);
            flatten_and(*right, out);
        }
        other => out.push(other),
    }
}
fn join_and(mut v: Vec<Expr>) -> Expr {
    let mut acc = v.remove(0);
    for e in v {
        acc = parse_quote!(#acc && #e);
    }
    acc
}
impl<'a> VisitMut for LetChainPass<'a> {
    fn visit_expr_mut(&mut self, e: &mut Expr) {
        visit_mut::visit_expr_mut(self, e);
        if let Expr::If(ifx) = e {
            let mut parts = vec![];
            flatten_and(*ifx.cond.clone(), &mut parts);
            let n_let = parts.iter().filter(|p| matches!(p, Expr::Let(_))).count();
            if n_let == 0 || parts.len() == 1 { return; }
            self.rules.hit("R4.let_chain");
            // group consecutive non-let conjuncts
            let mut groups: Vec<Expr> = vec![];
            let mut plain: Vec<Expr> = vec![];
            for p in parts {
                if matches!(p, Expr::Let(_)) {
                    if !plain.is_empty() { groups.push(join_and(std::mem::take(&mut plain))); }
                    groups.push(p);
                } else { plain.push(p); }
            }
            if !plain.is_empty() { groups.push(join_and(plain)); }
            let then_block = ifx.then_branch.clone();
            let else_branch: Option<Expr> = ifx.else_branch.as_ref().map(|(_, e)| (**e).clone());
            // build from the innermost outwards
            let mut inner: Expr = {
                let c = groups.pop().unwrap();
                match &else_branch {
                    Some(el) => parse_quote!(if #c #then_block else #el),
                    None => parse_quote!(if #c #then_block),
                }
            };
            while let Some(c) = groups.pop() {
                inner = match &else_branch {
                    Some(el) => parse_quote!(if #c { #inner } else #el),
                    None => parse_quote!(if #c { #inner }),
                };
            }
            if let Expr::If(mut new_if) = inner {
                new_if.attrs = ifx.attrs.clone();
                *e = Expr::If(new_if);
            }
        }
    }
}

// ---------------------------------------------------------------------------------------------
// R5: `let PAT = loop { .. break V; .. };`  ->  `let __vx_brkN; loop { .. { __vx_brkN = V; break } .. } let PAT = __vx_brkN;`

struct BreakValuePass<'a> { rules: &'a mut Rules, counter: u64, types: BTreeMap<u64, String> }
struct BreakRewriter { var: Ident, depth: u32, label: Option<Lifetime> }
impl VisitMut for BreakRewriter {
    fn visit_expr_mut(&mut self, e: &mut Expr) {
        match e {
            Expr::Loop(_) | Expr::While(_) | Expr::ForLoop(_) => {
                self.depth += 1;
                visit_mut::visit_expr_mut(self, e);
                self.depth -= 1;
                return;
            }
            Expr::Closure(_) => return,
            Expr::Break(b) => {
                let targets_us = match (&b.label, &self.label) {
                    (Some(l), Some(m)) => l.ident == m.ident,
                    (Some(_), None) => false,
                    (None, _) => self.depth == 0,
                };
                if targets_us {
                    if let Some(v) = b.expr.take() {
                        let var = self.var.clone();
                        let lbl = b.label.clone();
                        let mut v = *v;
                        // nested breaks inside the value expression are not possible in practice
                        visit_mut::visit_expr_mut(self, &mut v);
                        *e = parse_quote!({ #var = #v; break #lbl });
                        return;
                    }
                }
            }
            _ => {}
        }
        visit_mut::visit_expr_mut(self, e);
    }
    fn visit_item_mut(&mut self, _i: &mut Item) {}
}
impl<'a> VisitMut for BreakValuePass<'a> {
    fn visit_block_mut(&mut self, b: &mut Block) {
        visit_mut::visit_block_mut(self, b);
        let mut out = vec![];
        for s in b.stmts.drain(..) {
            if let Stmt::Local(Local { pat, init: Some(LocalInit { expr, diverge: None, .. }), attrs, .. }) = &s {
                if let Expr::Loop(lp) = &**expr {
                    let n = self.counter;
                    self.counter += 1;
                    self.rules.hit("R5.break_value");
                    let var = Ident::new(&format!("__vx_brk{}", n), Span::call_site());
                    let mut lp = lp.clone();
                    let mut rw = BreakRewriter { var: var.clone(), depth: 0, label: lp.label.as_ref().map(|l| l.name.clone()) };
                    rw.visit_block_mut(&mut lp.body);
                    let _ = attrs;
                    match self.types.get(&n).and_then(|t| t.parse::<TokenStream>().ok()) {
                        Some(ty) => out.push(parse_quote!(let #var: #ty;)),
                        None => out.push(parse_quote!(let #var;)),
                    }
                    out.push(Stmt::Expr(Expr::Loop(lp), None));
                    out.push(parse_quote!(let #pat = #var;));
                    continue;
                }
            }
            out.push(s);
        }
        b.stmts = out;
    }
}

// ---------------------------------------------------------------------------------------------
// R25: `let [mut] NAME = E;` -> `let [mut] NAME: TY = E;`
struct LetTypePass<'a> { rules: &'a mut Rules, types: BTreeMap<String, String> }
impl<'a> VisitMut for LetTypePass<'a> {
    fn visit_local_mut(&mut self, l: &mut Local) {
        visit_mut::visit_local_mut(self, l);
        if let Pat::Ident(pi) = &l.pat {
            if let Some(ty) = self.types.get(&pi.ident.to_string()) {
                if let Ok(t) = syn::parse_str::<Type>(ty) {
                    self.rules.hit("R25.let_type");
                    let inner = l.pat.clone();
                    l.pat = Pat::Type(PatType { attrs: vec![], pat: Box::new(inner), colon_token: Default::default(), ty: Box::new(t) });
                }
            }
        }
    }
}

/// statement anchors: `PREFIX` (the statement starts with it) or `PREFIX ... NEEDLE` (it starts with PREFIX and NEEDLE
/// occurs later in it) — the second form tells apart statements that only differ deep inside (the error kind of an
/// `insert(.., ModuleSlot::Err(..))`) without counting occurrences, so that reordering them does not move a hint
fn anchor_matches(stmt_norm: &str, pattern: &str) -> bool {
    match pattern.split_once(" ... ") {
        Some((pre, needle)) => {
            let (pre, needle) = (norm(pre), norm(needle));
            stmt_norm.starts_with(&pre) && stmt_norm[pre.len()..].contains(&needle)
        }
        None => stmt_norm.starts_with(&norm(pattern)),
    }
}

// ---------------------------------------------------------------------------------------------
// R6: for -> loop { match it.next() { Some(P) => B, None => break } }

struct ForPass<'a> { rules: &'a mut Rules, which: ForSel, into_iter: Vec<u64> }
enum ForSel { None, All, Some(Vec<u64>) }
impl<'a> VisitMut for ForPass<'a> {
    // a `while`/`loop` statement directly followed by the block a `for` became: terminate the loop statement with `;`
    // (Verus reads `while c invariant .. { } { }` as a loop body followed by a stray block)
    fn visit_block_mut(&mut self, b: &mut Block) {
        visit_mut::visit_block_mut(self, b);
        for i in 0..b.stmts.len().saturating_sub(1) {
            let next_is_block = matches!(&b.stmts[i + 1], Stmt::Expr(Expr::Block(_), _));
            if !next_is_block { continue; }
            if let Stmt::Expr(ex, semi) = &mut b.stmts[i] {
                if semi.is_none() && matches!(ex, Expr::While(_) | Expr::Loop(_)) {
                    *semi = Some(Default::default());
                }
            }
        }
    }
    fn visit_expr_mut(&mut self, e: &mut Expr) {
        visit_mut::visit_expr_mut(self, e);
        if let Expr::ForLoop(f) = e {
            let ord = peek_ord(&f.attrs, "vx_loop");
            let sel = match (&self.which, ord) {
                (ForSel::All, _) => true,
                (ForSel::Some(v), Some(o)) => v.contains(&o),
                _ => false,
            };
            if !sel { return; }
            self.rules.hit("R6.for_to_loop");
            let n = ord.unwrap_or(0);
            let it = Ident::new(&format!("__vx_it{}", n), Span::call_site());
            let pat = &f.pat;
            let expr = &f.expr;
            let body = &f.body;
            let label = &f.label;
            let attrs = &f.attrs;
            let lp: Expr = parse_quote!(#(#attrs)* #label loop { match #it.next() { Some(#pat) => #body None => break, } });
            if self.into_iter.contains(&n) {
                self.rules.hit("R6.into_iter");
                *e = parse_quote!({ let mut #it = (#expr).into_iter(); #lp });
            } else {
                *e = parse_quote!({ let mut #it = #expr; #lp });
            }
        }
    }
}

// ---------------------------------------------------------------------------------------------
// R14: name a sub-expression: `E` -> `{ let __vx_wN = E; <ghost text>; __vx_wN }` (same
// evaluation point, value moved through a let).  Addressed by the expression's exact token text.

struct WrapSpec { mtch: String, nth: u64, text: String, used: bool, seen: u64, name: String }
struct WrapPass<'a> { rules: &'a mut Rules, specs: &'a mut Vec<WrapSpec>, markers: &'a mut Markers }
impl<'a> VisitMut for WrapPass<'a> {
    fn visit_expr_mut(&mut self, e: &mut Expr) {
        let en = norm(&e.to_token_stream().to_string());
        let mut hit: Option<usize> = None;
        for (i, sp) in self.specs.iter_mut().enumerate() {
            let pat = norm(&sp.mtch);
            let is_match = if let Some(prefix) = pat.strip_suffix("...") { en.starts_with(prefix) } else { pat == en };
            if !sp.used && is_match {
                if sp.seen == sp.nth { sp.used = true; hit = Some(i); }
                sp.seen += 1;
            }
        }
        visit_mut::visit_expr_mut(self, e);
        if let Some(i) = hit {
            self.rules.hit("R14.subexpr_named");
            let name = Ident::new(&self.specs[i].name, Span::call_site());
            let m = self.markers.mk(&self.specs[i].text.clone());
            let inner = e.clone();
            let mstmt = Stmt::Expr(Expr::Verbatim(quote!(#m)), None);
            let mut blk: ExprBlock = parse_quote!({ let #name = __vx_placeholder; #name });
            if let Stmt::Local(l) = &mut blk.block.stmts[0] {
                if let Some(init) = &mut l.init { *init.expr = inner; }
            }
            blk.block.stmts.insert(1, mstmt);
            *e = Expr::Block(blk);
        }
    }
    fn visit_item_mut(&mut self, _i: &mut Item) {}
}

// ---------------------------------------------------------------------------------------------
// R15 (constructor used as a function value): `f(.., Enum::Variant, ..)` -> `f(.., |__vx_e: T| -> (o: R) ensures o ==
// Enum::Variant(__vx_e) { Enum::Variant(__vx_e) }, ..)` for the constructor paths named in the contract file (eta expansion).
struct EtaSpec { path: String, ty: String, ret: String, used: u64, nospec: bool }
struct EtaPass<'a> { rules: &'a mut Rules, specs: &'a mut Vec<EtaSpec> }
impl<'a> EtaPass<'a> {
    fn expand(&mut self, e: &mut Expr) {
        if let Expr::Path(p) = e {
            let en = norm(&p.to_token_stream().to_string());
            for sp in self.specs.iter_mut() {
                if norm(&sp.path) == en {
                    let path: TokenStream = sp.path.parse().unwrap_or_default();
                    let ty: TokenStream = sp.ty.parse().unwrap_or_default();
                    let ret: TokenStream = sp.ret.parse().unwrap_or_default();
                    sp.used += 1;
                    self.rules.hit("R15.constructor_eta_expanded");
                    if sp.nospec { *e = Expr::Verbatim(quote!(|__vx_e: #ty| -> (__vx_o: #ret) { #path(__vx_e) })); }
                    else { *e = Expr::Verbatim(quote!(|__vx_e: #ty| -> (__vx_o: #ret) ensures __vx_o == #path(__vx_e), { #path(__vx_e) })); }
                    return;
                }
            }
        }
    }
}
impl<'a> VisitMut for EtaPass<'a> {
    fn visit_expr_mut(&mut self, e: &mut Expr) {
        match e {
            Expr::Call(c) => {
                // the callee position is a plain constructor call, not a function value
                if !matches!(&*c.func, Expr::Path(_)) { self.visit_expr_mut(&mut c.func); }
                for a in c.args.iter_mut() { self.expand(a); self.visit_expr_mut(a); }
            }
            Expr::MethodCall(m) => {
                self.visit_expr_mut(&mut m.receiver);
                for a in m.args.iter_mut() { self.expand(a); self.visit_expr_mut(a); }
            }
            _ => visit_mut::visit_expr_mut(self, e),
        }
    }
    fn visit_item_mut(&mut self, _i: &mut Item) {}
}

// ---------------------------------------------------------------------------------------------
// R7 (method chains): `RECV.m1(A..).m2(B..)` -> `wrapper(RECV | &mut RECV, A.., B..)` for chains named
// in the contract file; the wrapper in the prelude has the original chain as its body.

struct ChainSpec { chain: Vec<String>, wrapper: String, recv_mode: String, used: u64, soft: bool, nth: Option<u64>, seen: u64 }
struct ChainPass<'a> { rules: &'a mut Rules, specs: &'a mut Vec<ChainSpec>, counts: BTreeMap<String, u64>, counted: std::collections::BTreeSet<String> }
impl<'a> VisitMut for ChainPass<'a> {
    fn visit_expr_mut(&mut self, e: &mut Expr) {
        visit_mut::visit_expr_mut(self, e);
        self.counted.clear();
        for sp in self.specs.iter_mut() {
            // walk down the receiver chain
            let mut cur: &Expr = e;
            let mut args_rev: Vec<Vec<Expr>> = vec![];
            let mut ok = true;
            for name in sp.chain.iter().rev() {
                if let Expr::MethodCall(mc) = cur {
                    if mc.method == name.as_str() {  // a turbofish is dropped: the wrapper's signature fixes the types
                        args_rev.push(mc.args.iter().cloned().collect());
                        cur = &mc.receiver;
                        continue;
                    }
                }
                ok = false;
                break;
            }
            if !ok { continue; }
            // `chain#N`: only the N-th occurrence (in visiting order) of this chain
            // (occurrences are counted once per expression and chain name, shared by all `#N` specs of that chain)
            if sp.nth.is_some() {
                let key = sp.chain.join(".");
                if !self.counted.contains(&key) { self.counted.insert(key.clone()); let c = self.counts.entry(key.clone()).or_insert(0); sp.seen = *c; *c += 1; }
                else { sp.seen = *self.counts.get(&key).unwrap() - 1; }
                if Some(sp.seen) != sp.nth { continue; }
            }
            let recv = cur.clone();
            let mut args: Vec<Expr> = vec![];
            for a in args_rev.into_iter().rev() { args.extend(a); }
            let w = Ident::new(&sp.wrapper, Span::call_site());
            // built structurally (not re-parsed): arguments may already hold Verus-syntax closures
            let mut call: ExprCall = parse_quote!(#w());
            if sp.recv_mode == "expect" {
                // R18: `OPT.unwrap_or_else(|| panic!(..))` -> `wrapper(OPT)`; only when the single argument is a
                // closure whose body is just a diverging macro (the wrapper requires the value to be present)
                let diverges = |e: &Expr| -> bool {
                    let is_div = |m: &ExprMacro| matches!(macro_name(&m.mac.path).as_str(), "panic" | "unreachable" | "unimplemented");
                    match e {
                        Expr::Closure(c) if c.inputs.is_empty() => match &*c.body {
                            Expr::Macro(m) => is_div(m),
                            Expr::Block(b) if b.block.stmts.len() == 1 => match &b.block.stmts[0] { Stmt::Expr(Expr::Macro(m), _) => is_div(m), Stmt::Macro(m) => matches!(macro_name(&m.mac.path).as_str(), "panic" | "unreachable" | "unimplemented"), _ => false },
                            _ => false,
                        },
                        _ => false,
                    }
                };
                if !(args.len() == 1 && diverges(&args[0])) { continue; }
                call.args.push(recv);
                sp.used += 1;
                self.rules.hit("R18.unwrap_or_else_panic_as_precondition");
                *e = Expr::Call(call);
                return;
            }
            if sp.recv_mode == "dropclosure" {
                // `RECV.fold(INIT, |acc, x| ..)`-like chains whose closure cannot be brought into the subset: the wrapper
                // receives the receiver and the non-closure arguments; the closure is NOT extracted and its effect is the
                // wrapper's ASSUMED contract (counted as a drop in the evidence).  Only when a closure argument is present.
                if !args.iter().any(|a| matches!(a, Expr::Closure(_))) { continue; }
                call.args.push(recv);
                for a in args { if !matches!(a, Expr::Closure(_)) { call.args.push(a); } }
                sp.used += 1;
                self.rules.hit("DROP.closure_body_replaced_by_wrapper_contract");
                *e = Expr::Call(call);
                return;
            }
            if sp.recv_mode == "fnval" {
                // `RECV.map(path::to::function)`: the argument is a function used as a value (Verus does not take
                // those); the wrapper stands for the call with exactly that function, so only the receiver is passed.
                // Only when every argument is a plain path.
                if !args.iter().all(|a| matches!(a, Expr::Path(_))) { continue; }
                call.args.push(recv);
                sp.used += 1;
                self.rules.hit("R7.method_chain_with_function_value_to_wrapper");
                *e = Expr::Call(call);
                return;
            }
            match sp.recv_mode.as_str() {
                "mut" => call.args.push(parse_quote!(&mut #recv)),
                "ref" => call.args.push(parse_quote!(& #recv)),
                "unit" => {}
                _ => call.args.push(recv),
            }
            if sp.recv_mode != "unit" { for a in args { call.args.push(a); } }
            let new: Expr = Expr::Call(call);
            sp.used += 1;
            self.rules.hit("R7.method_chain_to_wrapper");
            *e = new;
            return;
        }
    }
    fn visit_item_mut(&mut self, _i: &mut Item) {}
}

// ---------------------------------------------------------------------------------------------
// R13: `L |= R` on bools (Verus has no non-short-circuit bool OR) -> `L = vx_bool_or(L, R)`;
// the prelude wrapper's body is `a | b`.  Only applied in functions whose contract asks for it.

struct BoolOrAssignPass<'a> { rules: &'a mut Rules }
impl<'a> VisitMut for BoolOrAssignPass<'a> {
    fn visit_expr_mut(&mut self, e: &mut Expr) {
        visit_mut::visit_expr_mut(self, e);
        if let Expr::Binary(b) = e {
            if let BinOp::BitOrAssign(_) = b.op {
                let (l, r) = (&b.left, &b.right);
                self.rules.hit("R13.bool_or_assign");
                *e = parse_quote!(#l = vx_bool_or(#l, #r));
            }
        }
    }
}

// ---------------------------------------------------------------------------------------------
// R12: closure annotation (types, named return, requires/ensures). Pattern parameters are moved
// into a `let PAT = __vx_aN;` at the start of the closure body (Rust's own parameter semantics).

struct ClosureSpec { params: Option<Vec<String>>, ret: Option<String>, contract: String, adapter: Option<String>, bind: Option<String>, adapter_recv: Option<String> }
struct ClosurePass<'a> { rules: &'a mut Rules, specs: &'a BTreeMap<u64, ClosureSpec>, markers: &'a mut Markers, errors: &'a mut Vec<String>, used: Vec<u64>, pending: Vec<(Ident, TokenStream)>, ins: &'a mut Vec<InsertSpec>, ins_counts: BTreeMap<usize, u64>, loops: &'a BTreeMap<u64, String>, loops_used: Vec<u64> }
impl<'a> VisitMut for ClosurePass<'a> {
    fn visit_block_mut(&mut self, b: &mut Block) {
        let mut out = vec![];
        for mut s in b.stmts.drain(..) {
            let outer = std::mem::take(&mut self.pending);
            self.visit_stmt_mut(&mut s);
            for (id, ts) in std::mem::take(&mut self.pending) {
                out.push(Stmt::Expr(Expr::Verbatim(quote!(let #id = #ts;)), None));
            }
            self.pending = outer;
            out.push(s);
        }
        b.stmts = out;
    }
    fn visit_expr_mut(&mut self, e: &mut Expr) {
        // R7: `RECV.adapter(CLOSURE)` -> `vx_adapter(RECV, CLOSURE)` when the contract names a wrapper
        let mut adapter: Option<String> = None;
        let mut bind: Option<String> = None;
        let mut recv_mode: Option<String> = None;
        if let Expr::MethodCall(mc) = e {
            if mc.args.len() == 1 {
                if let Expr::Closure(c) = &mc.args[0] {
                    if let Some(o) = peek_ord(&c.attrs, "vx_closure") {
                        if let Some(sp) = self.specs.get(&o) {
                            if let Some(a) = &sp.adapter {
                                let want = a.trim_start_matches("vx_");
                                if mc.method == want || a.ends_with(&format!("_{}", mc.method)) { adapter = Some(a.clone()); bind = sp.bind.clone(); recv_mode = sp.adapter_recv.clone(); } else {
                                    self.errors.push(format!("closure {}: adapter {} does not match method {}", o, a, mc.method));
                                }
                            }
                        }
                    }
                }
            }
        }
        visit_mut::visit_expr_mut(self, e);
        if let Some(a) = adapter {
            if let Expr::MethodCall(mc) = e {
                let f = Ident::new(&a, Span::call_site());
                let recv = &mc.receiver;
                let arg = &mc.args[0];
                self.rules.hit("R7.adapter_call_to_wrapper");
                let call = match recv_mode.as_deref() {
                    Some("mut") => quote!(#f(&mut #recv, #arg)),
                    Some("ref") => quote!(#f(& #recv, #arg)),
                    _ => quote!(#f(#recv, #arg)),
                };
                if let Some(b) = bind {
                    // R11: hoist the adapter call into a `let` right before the enclosing statement
                    let id = Ident::new(&b, Span::call_site());
                    self.rules.hit("R11.adapter_call_hoisted");
                    self.pending.push((id.clone(), call));
                    *e = parse_quote!(#id);
                } else {
                    *e = Expr::Verbatim(call);
                }
            }
            return;
        }
        if let Expr::Closure(c) = e {
            let ord = take_ord(&mut c.attrs, "vx_closure");
            let Some(ord) = ord else { return };
            let Some(spec) = self.specs.get(&ord) else { return };
            self.used.push(ord);
            self.rules.hit("R12.closure_annotated");
            let mv = &c.capture;
            let mut lets: Vec<Stmt> = vec![];
            let mut params: Vec<TokenStream> = vec![];
            let orig: Vec<Pat> = c.inputs.iter().cloned().collect();
            match &spec.params {
                Some(ps) => {
                    if ps.len() != orig.len() {
                        self.errors.push(format!("closure {}: {} params in contract, {} in source", ord, ps.len(), orig.len()));
                        return;
                    }
                    for (i, (p, o)) in ps.iter().zip(orig.iter()).enumerate() {
                        // contract gives `name: Type`; when the source parameter is a pattern it is bound by a let
                        let ts: TokenStream = match p.parse() { Ok(t) => t, Err(_) => { self.errors.push(format!("closure {} param {} unparsable", ord, i)); return; } };
                        let pt: PatType = match parse2(ts.clone()) { Ok(t) => t, Err(_) => { self.errors.push(format!("closure {} param {} not `name: Type`", ord, i)); return; } };
                        let o_inner = match o { Pat::Type(t) => (*t.pat).clone(), other => other.clone() };
                        match (&*pt.pat, &o_inner) {
                            (Pat::Ident(a), Pat::Ident(b)) if a.ident == b.ident => { params.push(ts); }
                            (Pat::Ident(a), _) => {
                                let name = &a.ident;
                                if matches!(o_inner, Pat::Ident(_)) {
                                    self.errors.push(format!("closure {} param {}: name differs from source", ord, i));
                                    return;
                                }
                                lets.push(parse_quote!(let #o_inner = #name;));
                                params.push(ts);
                                self.rules.hit("R12.pattern_param_to_let");
                            }
                            _ => { self.errors.push(format!("closure {} param {}: contract must name an identifier", ord, i)); return; }
                        }
                    }
                }
                None => { for o in &orig { params.push(o.to_token_stream()); } }
            }
            let ret: TokenStream = match &spec.ret { Some(r) => { let t: TokenStream = r.parse().unwrap_or_default(); quote!(-> #t) } None => c.output.to_token_stream() };
            let m = if spec.contract.trim().is_empty() { None } else { Some(self.markers.mk(&spec.contract)) };
            {
                // statements / loops inside an annotated closure receive their inserts and invariants here
                // (the closure becomes verbatim text afterwards)
                let mut ip = InsertPass { specs: &mut *self.ins, markers: &mut *self.markers, counts: std::mem::take(&mut self.ins_counts), ctx: vec![] };
                ip.visit_expr_mut(&mut c.body);
                self.ins_counts = ip.counts;
                let mut lf = LoopFinalPass { loops: self.loops, markers: &mut *self.markers, used: vec![], seen: vec![] };
                lf.visit_expr_mut(&mut c.body);
                self.loops_used.extend(lf.used);
            }
            let body = &c.body;
            let body_block: TokenStream = match &**body {
                Expr::Block(b) if b.label.is_none() && b.attrs.is_empty() && lets.is_empty() => b.to_token_stream(),
                Expr::Block(b) if b.label.is_none() && b.attrs.is_empty() => { let st = &b.block.stmts; quote!({ #(#lets)* #(#st)* }) }
                other => quote!({ #(#lets)* #other }),
            };
            let ts = quote!(#mv |#(#params),*| #ret #m #body_block);
            *e = Expr::Verbatim(ts);
        }
    }
}

// ---------------------------------------------------------------------------------------------
// inserts: ghost/proof statements at anchors

#[derive(Clone)]
struct InsertSpec { at: String, mtch: String, nth: u64, loop_ord: Option<u64>, text: String, used: bool, within: String }

struct InsertPass<'a> { specs: &'a mut Vec<InsertSpec>, markers: &'a mut Markers, counts: BTreeMap<usize, u64>, ctx: Vec<String> }
impl<'a> InsertPass<'a> {
    fn mk_stmt(&mut self, text: &str) -> Stmt {
        let id = self.markers.mk(text);
        Stmt::Expr(Expr::Verbatim(quote!(#id)), None)
    }
}
fn stmt_norm(s: &Stmt) -> String { norm(&s.to_token_stream().to_string()) }
impl<'a> VisitMut for InsertPass<'a> {
    fn visit_block_mut(&mut self, b: &mut Block) {
        // match against the statements of this block first (pre-order), then descend
        let mut out: Vec<Stmt> = vec![];
        let stmts: Vec<Stmt> = b.stmts.drain(..).collect();
        for s in stmts {
            let sn = stmt_norm(&s);
            let mut before: Vec<Stmt> = vec![];
            let mut after: Vec<Stmt> = vec![];
            for i in 0..self.specs.len() {
                let (at, m, nth, within) = { let sp = &self.specs[i]; (sp.at.clone(), norm(&sp.mtch), sp.nth, norm(&sp.within)) };
                let ctx_ok = within.is_empty() || self.ctx.iter().any(|c| c.starts_with(&within));
                if (at == "before" || at == "after") && !m.is_empty() && anchor_matches(&sn, &self.specs[i].mtch) && ctx_ok {
                    let c = self.counts.entry(i).or_insert(0);
                    let this = *c;
                    *c += 1;
                    if this == nth {
                        let text = self.specs[i].text.clone();
                        let st = self.mk_stmt(&text);
                        self.specs[i].used = true;
                        if at == "before" { before.push(st) } else { after.push(st) }
                    }
                }
            }
            out.extend(before);
            out.push(s);
            out.extend(after);
        }
        b.stmts = out;
        // descend statement by statement so that `within` can refer to the enclosing statement's text
        for st in b.stmts.iter_mut() {
            let txt = stmt_norm(st);
            self.ctx.push(txt);
            self.visit_stmt_mut(st);
            self.ctx.pop();
        }
    }
    fn visit_arm_mut(&mut self, arm: &mut Arm) {
        // arm_start / arm_end anchors: addressed by the arm's pattern text (prefix), nth occurrence
        let pn = norm(&arm.pat.to_token_stream().to_string());
        let mut todo: Vec<(bool, Stmt)> = vec![];
        for i in 0..self.specs.len() {
            let (at, m, nth) = { let sp = &self.specs[i]; (sp.at.clone(), norm(&sp.mtch), sp.nth) };
            if (at == "arm_start" || at == "arm_end") && !m.is_empty() && pn.starts_with(&m) {
                let c = self.counts.entry(i).or_insert(0);
                let this = *c;
                *c += 1;
                if this == nth {
                    let text = self.specs[i].text.clone();
                    let st = self.mk_stmt(&text);
                    self.specs[i].used = true;
                    todo.push((at == "arm_start", st));
                }
            }
        }
        if !todo.is_empty() {
            // make sure the arm body is a block
            if !matches!(&*arm.body, Expr::Block(b) if b.label.is_none() && b.attrs.is_empty()) {
                let old = (*arm.body).clone();
                let blk: ExprBlock = parse_quote!({ __vx_placeholder });
                let mut blk = blk;
                blk.block.stmts[0] = Stmt::Expr(old, None);
                *arm.body = Expr::Block(blk);
                if arm.comma.is_none() { arm.comma = Some(Default::default()); }
            }
            if let Expr::Block(b) = &mut *arm.body {
                for (start, st) in todo {
                    if start { b.block.stmts.insert(0, st); } else {
                        let has_tail = matches!(b.block.stmts.last(), Some(Stmt::Expr(_, None)));
                        if has_tail {
                            // keep the value of the arm: insert before a non-unit tail only when it is block-like-free
                            let n = b.block.stmts.len() - 1;
                            let block_like = matches!(&b.block.stmts[n], Stmt::Expr(Expr::If(_) | Expr::Match(_) | Expr::Block(_) | Expr::Loop(_) | Expr::While(_) | Expr::ForLoop(_), None));
                            if block_like { b.block.stmts.push(st); } else { b.block.stmts.insert(n, st); }
                        } else { b.block.stmts.push(st); }
                    }
                }
            }
        }
        visit_mut::visit_arm_mut(self, arm);
    }
    fn visit_expr_mut(&mut self, e: &mut Expr) {
        // loop_start / loop_end anchors
        let (ord, body): (Option<u64>, Option<&mut Block>) = match e {
            Expr::Loop(l) => (peek_ord(&l.attrs, "vx_loop"), Some(&mut l.body)),
            Expr::While(l) => (peek_ord(&l.attrs, "vx_loop"), Some(&mut l.body)),
            Expr::ForLoop(l) => (peek_ord(&l.attrs, "vx_loop"), Some(&mut l.body)),
            _ => (None, None),
        };
        if let (Some(ord), Some(body)) = (ord, body) {
            let mut todo: Vec<(bool, Stmt)> = vec![];
            for i in 0..self.specs.len() {
                if self.specs[i].loop_ord == Some(ord) && !self.specs[i].used {
                    let at = self.specs[i].at.clone();
                    if at == "loop_start" || at == "loop_end" {
                        let text = self.specs[i].text.clone();
                        let id = self.markers.mk(&text);
                        let st = Stmt::Expr(Expr::Verbatim(quote!(#id)), None);
                        self.specs[i].used = true;
                        todo.push((at == "loop_start", st));
                    }
                }
            }
            if !todo.is_empty() {
                let target = user_loop_body(body);
                for (start, st) in todo {
                    if start { target.stmts.insert(0, st); } else {
                        // a loop body has type (): append; a non-block-like trailing expression gets its `;`
                        if let Some(Stmt::Expr(e, semi @ None)) = target.stmts.last_mut() {
                            let block_like = matches!(e, Expr::If(_) | Expr::Match(_) | Expr::Block(_) | Expr::Loop(_) | Expr::While(_) | Expr::ForLoop(_) | Expr::Unsafe(_) | Expr::Verbatim(_));
                            if !block_like { *semi = Some(Default::default()); }
                        }
                        target.stmts.push(st);
                    }
                }
            }
        }
        visit_mut::visit_expr_mut(self, e);
    }
    fn visit_item_mut(&mut self, _i: &mut Item) {}
}

// for an R6-rewritten `for`, the user-visible body is the `Some(P) => { B }` arm
fn user_loop_body(body: &mut Block) -> &mut Block {
    let is_r6 = body.stmts.len() == 1 && matches!(&body.stmts[0], Stmt::Expr(Expr::Match(m), _) if { let t = norm(&m.expr.to_token_stream().to_string()); t.starts_with("__vx_it") || (t.starts_with("{") && t.contains("=__vx_it") && t.contains(".next()")) });
    if is_r6 {
        if let Stmt::Expr(Expr::Match(m), _) = &mut body.stmts[0] {
            if let Expr::Block(bb) = &mut *m.arms[0].body { return &mut bb.block; }
        }
        unreachable!()
    }
    body
}

// ---------------------------------------------------------------------------------------------
// final pass: loops carry their invariants via markers

struct LoopFinalPass<'a> { loops: &'a BTreeMap<u64, String>, markers: &'a mut Markers, used: Vec<u64>, seen: Vec<u64> }
impl<'a> VisitMut for LoopFinalPass<'a> {
    fn visit_expr_mut(&mut self, e: &mut Expr) {
        visit_mut::visit_expr_mut(self, e);
        match e {
            Expr::Loop(l) => {
                if let Some(o) = take_ord(&mut l.attrs, "vx_loop") {
                    self.seen.push(o);
                    if let Some(t) = self.loops.get(&o) {
                        self.used.push(o);
                        let m = self.markers.mk(t);
                        let (a, lb, body) = (&l.attrs, &l.label, &l.body);
                        *e = Expr::Verbatim(quote!(#(#a)* #lb loop #m #body));
                    }
                }
            }
            Expr::While(l) => {
                if let Some(o) = take_ord(&mut l.attrs, "vx_loop") {
                    self.seen.push(o);
                    if let Some(t) = self.loops.get(&o) {
                        self.used.push(o);
                        let m = self.markers.mk(t);
                        let (a, lb, c, body) = (&l.attrs, &l.label, &l.cond, &l.body);
                        *e = Expr::Verbatim(quote!(#(#a)* #lb while #c #m #body));
                    }
                }
            }
            Expr::ForLoop(l) => {
                if let Some(o) = take_ord(&mut l.attrs, "vx_loop") {
                    self.seen.push(o);
                    if let Some(t) = self.loops.get(&o) {
                        self.used.push(o);
                        let m = self.markers.mk(t);
                        let (a, lb, p, x, body) = (&l.attrs, &l.label, &l.pat, &l.expr, &l.body);
                        *e = Expr::Verbatim(quote!(#(#a)* #lb for #p in #x #m #body));
                    }
                }
            }
            Expr::Closure(c) => { take_ord(&mut c.attrs, "vx_closure"); }
            _ => {}
        }
    }
    fn visit_item_mut(&mut self, _i: &mut Item) {}
}

// Self::Item substitution for R10
struct SelfAssocPass { name: String, ty: Type }
impl VisitMut for SelfAssocPass {
    fn visit_type_mut(&mut self, t: &mut Type) {
        if let Type::Path(tp) = t {
            if tp.qself.is_none() && tp.path.segments.len() == 2 && tp.path.segments[0].ident == "Self" && tp.path.segments[1].ident == self.name {
                *t = self.ty.clone();
                return;
            }
        }
        visit_mut::visit_type_mut(self, t);
    }
}

// ---------------------------------------------------------------------------------------------

fn get_str(v: &Value, k: &str) -> Option<String> { v.get(k).and_then(|x| x.as_str()).map(|s| s.to_string()) }

struct FnJob<'a> {
    spec: &'a Value,
    cfg: &'a AttrCfg,
    drop_macros: Vec<String>,
}

fn process_fn(
    job: &FnJob,
    attrs: &mut Vec<Attribute>,
    vis: &Visibility,
    sig: &mut Signature,
    block: &mut Block,
    rules: &mut Rules,
    errors: &mut Vec<String>,
    path: &str,
) -> String {
    let spec = job.spec;
    let mut markers = Markers::new();
    filter_attrs(attrs, job.cfg, rules);
    // R21
    UnreachablePass { rules }.visit_block_mut(block);
    // R17 (before tagging, so that closures inside `matches!` get an ordinal)
    MatchesPass { rules }.visit_block_mut(block);
    // P0 tag
    let mut tag = TagPass { loops: 0, closures: 0 };
    tag.visit_block_mut(block);
    // R1 inside bodies
    AttrPass { cfg: job.cfg, rules }.visit_block_mut(block);
    // R16
    if spec.get("sync_async").is_some() {
        if sig.asyncness.is_some() { sig.asyncness = None; rules.hit("R16.async_fn_as_fn"); }
        AwaitPass { rules }.visit_block_mut(block);
    } else if sig.asyncness.is_some() {
        errors.push(format!("{}: async fn (outside the supported subset unless the contract asks for R16)", path));
    }
    // R3
    {
        let drop_stmts: Vec<String> = spec.get("drop_stmts").and_then(|v| v.as_array()).map(|a| a.iter().filter_map(|x| x.as_str().map(|s| s.to_string())).collect()).unwrap_or_default();
        let mut lp = LogPass { rules, drop_macros: job.drop_macros.clone(), drop_nested: spec.get("drop_nested").and_then(|v| v.as_array()).map(|a| a.iter().filter_map(|x| x.as_str().map(|s| s.to_string())).collect()).unwrap_or_default(), drop_stmts: drop_stmts.clone(), dropped: vec![] };
        lp.visit_block_mut(block);
        for d in &drop_stmts { if !lp.dropped.contains(d) { errors.push(format!("{}: lost anchor: statement to drop not found: {}", path, d)); } }
    }
    // R25: type ascription on an un-annotated local (`let [mut] NAME = E;` -> `let [mut] NAME: TY = E;`); soft: a local
    // that is gone or already annotated is left alone
    if let Some(Value::Object(m)) = spec.get("let_types") {
        let mut lt = LetTypePass { rules, types: m.iter().filter_map(|(k, v)| v.as_str().map(|s| (k.clone(), s.to_string()))).collect() };
        lt.visit_block_mut(block);
    }
    // R4
    LetChainPass { rules }.visit_block_mut(block);
    // R5
    let mut brk_types: BTreeMap<u64, String> = BTreeMap::new();
    if let Some(Value::Object(m)) = spec.get("brk_types") { for (k, v) in m { if let (Ok(o), Some(s)) = (k.parse::<u64>(), v.as_str()) { brk_types.insert(o, s.to_string()); } } }
    BreakValuePass { rules, counter: 0, types: brk_types }.visit_block_mut(block);
    // R6
    let which = match spec.get("for_to_loop") {
        Some(Value::String(s)) if s == "all" => ForSel::All,
        Some(Value::Array(a)) => ForSel::Some(a.iter().filter_map(|x| x.as_u64()).collect()),
        _ => ForSel::None,
    };
    let into_iter: Vec<u64> = spec.get("for_into_iter").and_then(|v| v.as_array()).map(|a| a.iter().filter_map(|x| x.as_u64()).collect()).unwrap_or_default();
    ForPass { rules, which, into_iter }.visit_block_mut(block);
    // R15 constructor function values
    let mut etas: Vec<EtaSpec> = vec![];
    if let Some(Value::Array(a)) = spec.get("etas") {
        for v in a { etas.push(EtaSpec { path: get_str(v, "path").unwrap_or_default(), ty: get_str(v, "ty").unwrap_or_default(), ret: get_str(v, "ret").unwrap_or_default(), used: 0, nospec: v.get("nospec").and_then(|x| x.as_bool()).unwrap_or(false) }); }
    }
    EtaPass { rules, specs: &mut etas }.visit_block_mut(block);
    for c in &etas { if c.used == 0 { errors.push(format!("{}: lost anchor: constructor value {} not found", path, c.path)); } }
    // R7 chains
    let mut chains: Vec<ChainSpec> = vec![];
    if let Some(Value::Array(a)) = spec.get("adapts") {
        for v in a {
            let full = get_str(v, "chain").unwrap_or_default();
            let (cname, nth) = match full.split_once('#') { Some((a, b)) => (a.to_string(), b.parse::<u64>().ok()), None => (full.clone(), None) };
            chains.push(ChainSpec { nth, seen: 0, chain: cname.split('.').map(|s| s.to_string()).collect(), wrapper: get_str(v, "wrapper").unwrap_or_default(), recv_mode: get_str(v, "recv").unwrap_or_default(), used: 0, soft: v.get("soft").and_then(|x| x.as_bool()).unwrap_or(false) });
        }
    }
    ChainPass { rules, specs: &mut chains, counts: BTreeMap::new(), counted: Default::default() }.visit_block_mut(block);
    // An adapter whose method chain no longer occurs has nothing to adapt: the function is verified as it stands (if
    // the code now uses an unsupported call instead, Verus says so and the run is undecided for that reason).  Only an
    // adapter that addresses the N-th occurrence (`chain#N`) stays a hard anchor: its ordinal may now point elsewhere.
    for c in &chains {
        if c.used == 0 {
            if c.nth.is_some() && !c.soft { errors.push(format!("{}: lost anchor: method chain {} not found", path, c.chain.join("."))); }
            else { rules.hit(&format!("ADAPTER_UNUSED:{}", c.chain.join("."))); }
        }
    }
    // R14
    let mut wraps: Vec<WrapSpec> = vec![];
    if let Some(Value::Array(a)) = spec.get("wraps") {
        for (i, v) in a.iter().enumerate() {
            wraps.push(WrapSpec { mtch: get_str(v, "match").unwrap_or_default(), nth: v.get("nth").and_then(|x| x.as_u64()).unwrap_or(0), text: get_str(v, "text").unwrap_or_default(), used: false, seen: 0, name: get_str(v, "name").unwrap_or(format!("__vx_w{}", i)) });
        }
    }
    WrapPass { rules, specs: &mut wraps, markers: &mut markers }.visit_block_mut(block);
    for w in &wraps { if !w.used { errors.push(format!("{}: lost anchor: wrap match={:?} nth={}", path, w.mtch, w.nth)); } }
    // R13
    if spec.get("bool_or_assign").is_some() { BoolOrAssignPass { rules }.visit_block_mut(block); }
    // R12
    let mut cspecs: BTreeMap<u64, ClosureSpec> = BTreeMap::new();
    if let Some(Value::Object(m)) = spec.get("closures") {
        for (k, v) in m {
            let ord: u64 = k.parse().unwrap_or(u64::MAX);
            cspecs.insert(ord, ClosureSpec {
                params: v.get("params").and_then(|p| p.as_array()).map(|a| a.iter().filter_map(|x| x.as_str().map(|s| s.to_string())).collect()),
                ret: get_str(v, "ret"),
                contract: get_str(v, "contract").unwrap_or_default(),
                adapter: get_str(v, "adapter"),
                bind: get_str(v, "bind"),
                adapter_recv: get_str(v, "adapter_recv"),
            });
        }
    }
    // inserts
    let mut ins: Vec<InsertSpec> = vec![];
    let drop_inserts: Vec<u64> = spec.get("drop_inserts").and_then(|v| v.as_array()).map(|a| a.iter().filter_map(|x| x.as_u64()).collect()).unwrap_or_default();
    let soft_inserts = spec.get("soft_inserts").and_then(|v| v.as_bool()).unwrap_or(false);
    let mut ins_index: Vec<u64> = vec![];
    if let Some(Value::Array(a)) = spec.get("inserts") {
        for (vi, v) in a.iter().enumerate() {
            if drop_inserts.contains(&(vi as u64)) { continue; }
            ins_index.push(vi as u64);
            ins.push(InsertSpec {
                at: get_str(v, "at").unwrap_or_default(),
                mtch: get_str(v, "match").unwrap_or_default(),
                nth: v.get("nth").and_then(|x| x.as_u64()).unwrap_or(0),
                loop_ord: v.get("loop").and_then(|x| x.as_u64()),
                text: get_str(v, "text").unwrap_or_default(),
                used: false,
                within: get_str(v, "within").unwrap_or_default(),
            });
        }
    }
    let mut lspecs: BTreeMap<u64, String> = BTreeMap::new();
    if let Some(Value::Object(m)) = spec.get("loops") {
        for (k, v) in m { if let (Ok(o), Some(s)) = (k.parse::<u64>(), v.as_str()) { lspecs.insert(o, s.to_string()); } }
    }
    let mut closure_loops_used: Vec<u64> = vec![];
    let mut closure_ins_counts: BTreeMap<usize, u64> = BTreeMap::new();
    {
        let mut cp = ClosurePass { rules, specs: &cspecs, markers: &mut markers, errors, used: vec![], pending: vec![], ins: &mut ins, ins_counts: BTreeMap::new(), loops: &lspecs, loops_used: vec![] };
        cp.visit_block_mut(block);
        let used = cp.used.clone();
        closure_loops_used = cp.loops_used.clone();
        closure_ins_counts = std::mem::take(&mut cp.ins_counts);
        for k in cspecs.keys() {
            if !used.contains(k) {
                // a function that no longer has ANY closure cannot need a closure annotation: the annotations are
                // dropped (recorded) and the body is verified as it stands
                if tag.closures == 0 { rules.hit("VANISHED.closure_annotation_dropped"); }
                else { errors.push(format!("{}: lost anchor: closure {} not found ({} closures in source)", path, k, tag.closures)); }
            }
        }
    }
    {
        let mut ip = InsertPass { specs: &mut ins, markers: &mut markers, counts: closure_ins_counts, ctx: vec![] };
        ip.visit_block_mut(block);
    }
    for sp in ins.iter_mut() {
        if sp.at == "start" {
            let id = markers.mk(&sp.text);
            block.stmts.insert(0, Stmt::Expr(Expr::Verbatim(quote!(#id)), None));
            sp.used = true;
        } else if sp.at == "end" {
            let id = markers.mk(&sp.text);
            let st = Stmt::Expr(Expr::Verbatim(quote!(#id)), None);
            // before the tail expression, or before a final `return ..;` statement
            let has_tail = matches!(block.stmts.last(), Some(Stmt::Expr(_, None))) || matches!(block.stmts.last(), Some(Stmt::Expr(Expr::Return(_), Some(_))));
            if has_tail { let n = block.stmts.len() - 1; block.stmts.insert(n, st); } else { block.stmts.push(st); }
            sp.used = true;
        }
    }
    for sp in &ins {
        if !sp.used {
            let statement_level = matches!(sp.at.as_str(), "before" | "after" | "arm_start" | "arm_end");
            if soft_inserts && statement_level { /* reported through lost_inserts below */ }
            else { errors.push(format!("{}: lost anchor: insert at={} match={:?} nth={} loop={:?}", path, sp.at, sp.mtch, sp.nth, sp.loop_ord)); }
        }
    }
    for (k, sp) in ins.iter().enumerate() {
        if !sp.used && soft_inserts && matches!(sp.at.as_str(), "before" | "after" | "arm_start" | "arm_end") {
            rules.hit(&format!("LOST_INSERT:{}", ins_index[k]));
        }
    }
    // loops
    {
        let mut lf = LoopFinalPass { loops: &lspecs, markers: &mut markers, used: vec![], seen: vec![] };
        lf.visit_block_mut(block);
        for k in lspecs.keys() {
            if !lf.used.contains(k) && !closure_loops_used.contains(k) { errors.push(format!("{}: lost anchor: loop {} not found ({} loops in source)", path, k, tag.loops)); }
        }
    }
    if let Some(exp) = spec.get("expect_loops").and_then(|x| x.as_u64()) {
        if exp != tag.loops { errors.push(format!("{}: lost anchor: expected {} loops, source has {}", path, exp, tag.loops)); }
    }
    if let Some(exp) = spec.get("expect_closures").and_then(|x| x.as_u64()) {
        if exp != tag.closures && tag.closures != 0 { errors.push(format!("{}: lost anchor: expected {} closures, source has {}", path, exp, tag.closures)); }
    }

    // R12 (functions): a pattern parameter `PAT: T` becomes `__vx_argN: T` + `let PAT = __vx_argN;`
    {
        let mut lets: Vec<Stmt> = vec![];
        for (i, inp) in sig.inputs.iter_mut().enumerate() {
            if let FnArg::Typed(pt) = inp {
                if !matches!(&*pt.pat, Pat::Ident(_)) {
                    let id = Ident::new(&format!("__vx_arg{}", i), Span::call_site());
                    let old = (*pt.pat).clone();
                    lets.push(parse_quote!(let #old = #id;));
                    *pt.pat = parse_quote!(#id);
                    rules.hit("R12.pattern_param_to_let");
                }
            }
        }
        for (k, l) in lets.into_iter().enumerate() { block.stmts.insert(k, l); }
    }
    // signature
    if let Some(n) = get_str(spec, "as") { sig.ident = Ident::new(&n, Span::call_site()); }
    let pre = get_str(spec, "pre_attrs").unwrap_or_default();
    let contract = get_str(spec, "contract").unwrap_or_default();
    let ret_name = get_str(spec, "ret");
    let mut vis_ts = vis.to_token_stream();
    if !matches!(vis, Visibility::Public(_)) { rules.hit("R2.visibility_widened"); vis_ts = quote!(pub); }
    let Signature { constness, asyncness, unsafety, abi, ident, generics, inputs, output, .. } = &*sig;
    let (_, _, where_clause) = generics.split_for_impl();
    let params = &generics.params;
    let gen_ts = if params.is_empty() { quote!() } else { quote!(<#params>) };
    let out_ts = match (output, &ret_name) {
        (ReturnType::Type(_, t), Some(n)) => { let id = Ident::new(n, Span::call_site()); quote!(-> (#id: #t)) }
        (ReturnType::Type(_, t), None) => quote!(-> #t),
        (ReturnType::Default, _) => quote!(),
    };
    let cm = if contract.trim().is_empty() { None } else { Some(markers.mk(&contract)) };
    let pm = if pre.trim().is_empty() { None } else { Some(markers.mk(&pre)) };
    let a = &*attrs;
    let ts = quote!(#pm #(#a)* #vis_ts #constness #asyncness #unsafety #abi fn #ident #gen_ts (#inputs) #out_ts #where_clause #cm #block);
    markers.subst(&print_tokens(ts))
}

fn find_line_range<T: Spanned>(t: &T) -> (usize, usize) {
    let s = t.span();
    (s.start().line, s.end().line)
}

fn type_last_ident(t: &Type) -> Option<String> {
    match t {
        Type::Path(p) => p.path.segments.last().map(|s| s.ident.to_string()),
        Type::Reference(r) => type_last_ident(&r.elem),
        _ => None,
    }
}

fn process_struct_like(item: &mut Item, spec: &Value, cfg: &AttrCfg, rules: &mut Rules, errors: &mut Vec<String>, path: &str) -> String {
    let keep: Option<Vec<String>> = spec.get("keep_fields").and_then(|v| v.as_array()).map(|a| a.iter().filter_map(|x| x.as_str().map(|s| s.to_string())).collect());
    let pre = get_str(spec, "pre_attrs").unwrap_or_default();
    let mut markers = Markers::new();
    let pm = if pre.trim().is_empty() { None } else { Some(markers.mk(&pre)) };
    match item {
        Item::Struct(s) => {
            filter_attrs(&mut s.attrs, cfg, rules);
            if !matches!(s.vis, Visibility::Public(_)) { rules.hit("R2.visibility_widened"); s.vis = parse_quote!(pub); }
            if let Fields::Named(f) = &mut s.fields {
                let mut kept = Punctuated::new();
                let mut names = vec![];
                for mut fld in std::mem::take(&mut f.named).into_iter() {
                    if !filter_attrs(&mut fld.attrs, cfg, rules) { continue; }
                    let name = fld.ident.as_ref().unwrap().to_string();
                    if let Some(k) = &keep { if !k.contains(&name) { rules.hit("R8.field_dropped"); continue; } }
                    if !matches!(fld.vis, Visibility::Public(_)) { fld.vis = parse_quote!(pub); }
                    names.push(name);
                    kept.push(fld);
                }
                if let Some(k) = &keep { for want in k { if !names.contains(want) { errors.push(format!("{}: lost anchor: field {} not found", path, want)); } } }
                // R8: generic parameters left unused by the pruning get a PhantomData marker field
                let body = kept.iter().map(|f| f.ty.to_token_stream().to_string()).collect::<Vec<_>>().join(" ");
                let mut n = 0;
                for gp in s.generics.params.iter() {
                    match gp {
                        GenericParam::Lifetime(lp) => {
                            let lt = &lp.lifetime;
                            if !body.contains(&lt.to_string()) {
                                let id = Ident::new(&format!("__vx_phantom{}", n), Span::call_site()); n += 1;
                                kept.push(parse_quote!(pub #id: core::marker::PhantomData<& #lt ()>));
                                rules.hit("R8.phantom_for_unused_param");
                            }
                        }
                        GenericParam::Type(tp) => {
                            let t = &tp.ident;
                            if !body.split(|c: char| !c.is_alphanumeric() && c != '_').any(|w| w == t.to_string()) {
                                let id = Ident::new(&format!("__vx_phantom{}", n), Span::call_site()); n += 1;
                                kept.push(parse_quote!(pub #id: core::marker::PhantomData<#t>));
                                rules.hit("R8.phantom_for_unused_param");
                            }
                        }
                        _ => {}
                    }
                }
                f.named = kept;
            }
            if let Fields::Unnamed(f) = &mut s.fields {
                for fld in f.unnamed.iter_mut() { filter_attrs(&mut fld.attrs, cfg, rules); if !matches!(fld.vis, Visibility::Public(_)) { fld.vis = parse_quote!(pub); } }
            }
            markers.subst(&print_tokens(quote!(#pm #s)))
        }
        Item::Enum(e) => {
            filter_attrs(&mut e.attrs, cfg, rules);
            if !matches!(e.vis, Visibility::Public(_)) { rules.hit("R2.visibility_widened"); e.vis = parse_quote!(pub); }
            let mut vs = Punctuated::new();
            for mut v in std::mem::take(&mut e.variants).into_iter() {
                if !filter_attrs(&mut v.attrs, cfg, rules) { continue; }
                match &mut v.fields {
                    Fields::Named(f) => {
                        let mut kept = Punctuated::new();
                        for mut fld in std::mem::take(&mut f.named).into_iter() { if filter_attrs(&mut fld.attrs, cfg, rules) { kept.push(fld); } }
                        f.named = kept;
                    }
                    Fields::Unnamed(f) => { for fld in f.unnamed.iter_mut() { filter_attrs(&mut fld.attrs, cfg, rules); } }
                    Fields::Unit => {}
                }
                vs.push(v);
            }
            e.variants = vs;
            markers.subst(&print_tokens(quote!(#pm #e)))
        }
        Item::Const(c) => { filter_attrs(&mut c.attrs, cfg, rules); c.vis = parse_quote!(pub); markers.subst(&print_tokens(quote!(#pm #c))) }
        Item::Type(t) => { filter_attrs(&mut t.attrs, cfg, rules); t.vis = parse_quote!(pub); markers.subst(&print_tokens(quote!(#pm #t))) }
        Item::Static(t) => { filter_attrs(&mut t.attrs, cfg, rules); t.vis = parse_quote!(pub); markers.subst(&print_tokens(quote!(#pm #t))) }
        Item::Trait(t) => {
            filter_attrs(&mut t.attrs, cfg, rules);
            t.vis = parse_quote!(pub);
            // R1: drop Debug supertraits
            let before = t.supertraits.len();
            let kept: Punctuated<TypeParamBound, Token![+]> = std::mem::take(&mut t.supertraits).into_iter().filter(|b| !norm(&b.to_token_stream().to_string()).ends_with("Debug")).collect();
            if kept.len() != before { rules.hit("R1.debug_supertrait_dropped"); }
            t.supertraits = kept;
            if t.supertraits.is_empty() { t.colon_token = None; }
            for it in t.items.iter_mut() { if let TraitItem::Fn(f) = it { filter_attrs(&mut f.attrs, cfg, rules); } }
            markers.subst(&print_tokens(quote!(#pm #t)))
        }
        _ => { errors.push(format!("{}: unsupported item kind", path)); String::new() }
    }
}

fn main() {
    let arg = std::env::args().nth(1);
    let input = match arg {
        Some(p) => std::fs::read_to_string(p).expect("job file"),
        None => { let mut s = String::new(); std::io::Read::read_to_string(&mut std::io::stdin(), &mut s).unwrap(); s }
    };
    let job: Value = serde_json::from_str(&input).expect("job json");
    let mut errors: Vec<String> = vec![];
    let mut files: BTreeMap<String, (String, File)> = BTreeMap::new();
    if let Some(Value::Object(m)) = job.get("modules") {
        for (k, v) in m {
            let p = v.as_str().unwrap().to_string();
            match std::fs::read_to_string(&p) {
                Ok(src) => match parse_file(&src) {
                    Ok(f) => { files.insert(k.clone(), (p, f)); }
                    Err(e) => errors.push(format!("parse error in {}: {}", p, e)),
                },
                Err(e) => errors.push(format!("cannot read {}: {}", p, e)),
            }
        }
    }
    let features: Vec<String> = job.get("features").and_then(|v| v.as_array()).map(|a| a.iter().filter_map(|x| x.as_str().map(|s| s.to_string())).collect()).unwrap_or_default();
    let default_derives: Vec<String> = ["Clone", "Copy", "PartialEq", "Eq", "PartialOrd", "Ord", "Hash", "Default"].iter().map(|s| s.to_string()).collect();
    let drop_macros: Vec<String> = ["log::trace", "log::debug", "log::warn", "log::info", "log::error", "debug_assert", "debug_assert_eq", "debug_assert_ne"].iter().map(|s| s.to_string()).collect();
    let mut out_items: Vec<Value> = vec![];
    let empty = vec![];
    for spec in job.get("items").and_then(|v| v.as_array()).unwrap_or(&empty) {
        let path = get_str(spec, "path").unwrap_or_default();
        let segs: Vec<&str> = path.split("::").collect();
        let mut rules = Rules::default();
        let derives: Vec<String> = spec.get("derives").and_then(|v| v.as_array()).map(|a| a.iter().filter_map(|x| x.as_str().map(|s| s.to_string())).collect()).unwrap_or(default_derives.clone());
        let cfg = AttrCfg { features: features.clone(), keep_derives: derives };
        let Some((fpath, file)) = files.get(segs[0]) else { errors.push(format!("{}: unknown module", path)); continue };
        let fpath = fpath.clone();
        let mut found: Option<Value> = None;
        let mut my_errors: Vec<String> = vec![];
        // optional nested module path: mod::inner::name
        let mut items: &Vec<Item> = &file.items;
        let mut idx = 1;
        while idx + 1 < segs.len() {
            let mut descended = false;
            for it in items.iter() {
                if let Item::Mod(m) = it { if m.ident == segs[idx] { if let Some((_, c)) = &m.content { items = c; descended = true; } } }
            }
            if descended { idx += 1 } else { break }
        }
        // descend into nested fn items: mod::outer::inner (fn inside fn, at any block depth, also inside `async` blocks)
        // and mod::Type::method::inner (fn inside a method of an impl block)
        fn nested_items(b: &Block) -> Vec<Item> {
            struct C(Vec<Item>);
            impl<'ast> syn::visit::Visit<'ast> for C {
                fn visit_stmt(&mut self, st: &'ast Stmt) {
                    if let Stmt::Item(i) = st { self.0.push(i.clone()); } else { syn::visit::visit_stmt(self, st); }
                }
            }
            let mut c = C(vec![]);
            syn::visit::Visit::visit_block(&mut c, b);
            c.0
        }
        let mut nested_store: Vec<Item>;
        while idx + 1 < segs.len() {
            let mut found_fn: Option<Vec<Item>> = None;
            let mut consumed = 1;
            for it in items.iter() {
                if let Item::Fn(f) = it {
                    if f.sig.ident == segs[idx] {
                        let inner = nested_items(&f.block);
                        if !inner.is_empty() { found_fn = Some(inner); }
                    }
                }
                if idx + 2 < segs.len() {
                    if let Item::Impl(im) = it {
                        let tyname = match &*im.self_ty { Type::Path(tp) => tp.path.segments.last().map(|x| x.ident.to_string()), _ => None };
                        if im.trait_.is_none() && tyname.as_deref() == Some(segs[idx]) {
                            for ii in im.items.iter() {
                                if let ImplItem::Fn(m) = ii {
                                    if m.sig.ident == segs[idx + 1] {
                                        let inner = nested_items(&m.block);
                                        if !inner.is_empty() { found_fn = Some(inner); consumed = 2; }
                                    }
                                }
                            }
                        }
                    }
                }
            }
            match found_fn {
                Some(v) => { nested_store = v; items = Box::leak(Box::new(nested_store)); idx += consumed; }
                None => break,
            }
        }
        let rest = &segs[idx..];
        let impl_trait = get_str(spec, "impl_trait");
        if rest.len() == 1 {
            for it in items.iter() {
                let name = match it {
                    Item::Fn(f) => Some(f.sig.ident.to_string()),
                    Item::Struct(s) => Some(s.ident.to_string()),
                    Item::Enum(s) => Some(s.ident.to_string()),
                    Item::Const(s) => Some(s.ident.to_string()),
                    Item::Type(s) => Some(s.ident.to_string()),
                    Item::Trait(s) => Some(s.ident.to_string()),
                    Item::Static(s) => Some(s.ident.to_string()),
                    _ => None,
                };
                if name.as_deref() != Some(rest[0]) { continue; }
                // skip cfg'd-off duplicates
                let attrs: &Vec<Attribute> = match it { Item::Fn(f) => &f.attrs, Item::Struct(s) => &s.attrs, Item::Enum(s) => &s.attrs, Item::Const(s) => &s.attrs, Item::Type(s) => &s.attrs, Item::Trait(s) => &s.attrs, Item::Static(s) => &s.attrs, _ => unreachable!() };
                if attrs.iter().any(|a| cfg_decision(a, &features) == Some(false)) { continue; }
                let fp = fingerprint(&it.to_token_stream());
                let (ls, le) = find_line_range(it);
                let text = match it {
                    Item::Fn(f) => {
                        let mut f = f.clone();
                        let fj = FnJob { spec, cfg: &cfg, drop_macros: drop_macros.clone() };
                        let ItemFn { attrs, vis, sig, block } = &mut f;
                        process_fn(&fj, attrs, vis, sig, block, &mut rules, &mut my_errors, &path)
                    }
                    other => { let mut o = other.clone(); process_struct_like(&mut o, spec, &cfg, &mut rules, &mut my_errors, &path) }
                };
                found = Some(json!({"path": path, "text": text, "fingerprint": fp, "file": fpath, "line_start": ls, "line_end": le, "rules": rules.json()}));
                break;
            }
        } else if rest.len() == 2 && get_str(spec, "impl_mode").as_deref() == Some("trait") {
            // rest = [Type, Trait]: the whole `impl Trait for Type` block, attributes filtered (R1), log/cfg rules applied
            for it in items.iter() {
                let Item::Impl(im) = it else { continue };
                if type_last_ident(&im.self_ty).as_deref() != Some(rest[0]) { continue; }
                let trait_name = im.trait_.as_ref().map(|(_, p, _)| p.segments.last().unwrap().ident.to_string());
                if trait_name.as_deref() != Some(rest[1]) { continue; }
                let fp = fingerprint(&it.to_token_stream());
                let (ls, le) = find_line_range(it);
                let mut im = im.clone();
                filter_attrs(&mut im.attrs, &cfg, &mut rules);
                for ii in im.items.iter_mut() {
                    if let ImplItem::Fn(m) = ii {
                        filter_attrs(&mut m.attrs, &cfg, &mut rules);
                        AttrPass { cfg: &cfg, rules: &mut rules }.visit_block_mut(&mut m.block);
                        LogPass { rules: &mut rules, drop_macros: drop_macros.clone(), drop_nested: vec![], drop_stmts: vec![], dropped: vec![] }.visit_block_mut(&mut m.block);
                    }
                }
                rules.hit("R10.trait_impl_kept");
                let text = print_tokens(im.to_token_stream());
                found = Some(json!({"path": path, "text": text, "fingerprint": fp, "file": fpath, "line_start": ls, "line_end": le, "rules": rules.json()}));
                break;
            }
        } else if rest.len() == 2 {
            'outer: for it in items.iter() {
                let Item::Impl(im) = it else { continue };
                if type_last_ident(&im.self_ty).as_deref() != Some(rest[0]) { continue; }
                if im.attrs.iter().any(|a| cfg_decision(a, &features) == Some(false)) { continue; }
                let trait_name = im.trait_.as_ref().map(|(_, p, _)| p.segments.last().unwrap().ident.to_string());
                if let Some(want) = &impl_trait { if trait_name.as_deref() != Some(want.as_str()) && !(want == "-" && trait_name.is_none()) { continue; } }
                for ii in im.items.iter() {
                    match ii {
                        ImplItem::Fn(m) if m.sig.ident == rest[1] => {
                            if m.attrs.iter().any(|a| cfg_decision(a, &features) == Some(false)) { continue; }
                            let fp = fingerprint(&m.to_token_stream());
                            let (ls, le) = find_line_range(m);
                            let mut m = m.clone();
                            // R10: associated types of a trait impl are substituted
                            if im.trait_.is_some() {
                                rules.hit("R10.trait_impl_to_inherent");
                                for other in im.items.iter() {
                                    if let ImplItem::Type(t) = other {
                                        let mut p = SelfAssocPass { name: t.ident.to_string(), ty: t.ty.clone() };
                                        p.visit_impl_item_fn_mut(&mut m);
                                    }
                                }
                            }
                            let fj = FnJob { spec, cfg: &cfg, drop_macros: drop_macros.clone() };
                            let vis: Visibility = if im.trait_.is_some() { parse_quote!(pub) } else { m.vis.clone() };
                            let ImplItemFn { attrs, sig, block, .. } = &mut m;
                            let ftext = process_fn(&fj, attrs, &vis, sig, block, &mut rules, &mut my_errors, &path);
                            let (ig, _, wc) = im.generics.split_for_impl();
                            let st = &im.self_ty;
                            let header = print_tokens(quote!(impl #ig #st #wc));
                            let mut text = String::new();
                            text.push_str(header.trim_end());
                            text.push_str(" {\n");
                            for l in ftext.lines() { text.push_str("  "); text.push_str(l); text.push('\n'); }
                            text.push_str("}\n");
                            found = Some(json!({"path": path, "text": text, "fingerprint": fp, "file": fpath, "line_start": ls, "line_end": le, "rules": rules.json()}));
                            break 'outer;
                        }
                        ImplItem::Const(c) if c.ident == rest[1] => {
                            let fp = fingerprint(&c.to_token_stream());
                            let (ls, le) = find_line_range(c);
                            let mut c = c.clone();
                            filter_attrs(&mut c.attrs, &cfg, &mut rules);
                            let (ig, _, wc) = im.generics.split_for_impl();
                            let st = &im.self_ty;
                            let text = print_tokens(quote!(impl #ig #st #wc { #c }));
                            found = Some(json!({"path": path, "text": text, "fingerprint": fp, "file": fpath, "line_start": ls, "line_end": le, "rules": rules.json()}));
                            break 'outer;
                        }
                        _ => {}
                    }
                }
            }
        }
        match found {
            Some(v) => out_items.push(v),
            None => errors.push(format!("{}: lost anchor: item not found in {}", path, fpath)),
        }
        errors.extend(my_errors);
    }
    let out = json!({"items": out_items, "errors": errors});
    println!("{}", serde_json::to_string_pretty(&out).unwrap());
}
