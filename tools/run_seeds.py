#!/usr/bin/env python3
"""Applies every seeded change to /repo (working tree only), runs the property's quick check, records
the verdict in seeded/<id>/meta.json, and undoes the change.  Never commits anything in /repo."""
import json, os, subprocess, sys
V = '/verif'
only = sys.argv[1:]
rows = []
for d in sorted(os.listdir(os.path.join(V, 'seeded'))):
    if only and not any(d.startswith(o) for o in only):
        continue
    sd = os.path.join(V, 'seeded', d)
    meta = json.load(open(os.path.join(sd, 'meta.json')))
    prop = meta['property']
    a = subprocess.run(['git', '-C', '/repo', 'apply', os.path.join(sd, 'patch.diff')], capture_output=True, text=True)
    if a.returncode != 0:
        rows.append((d, 'PATCH-DOES-NOT-APPLY', a.stderr.strip()[:100]))
        continue
    try:
        p = subprocess.run([os.path.join(V, 'check'), prop], capture_output=True, text=True, cwd=V, env=dict(os.environ, VERIF_DEV_EVIDENCE='1'))
    finally:
        subprocess.run(['git', '-C', '/repo', 'checkout', '--', '.'])
    lines = [l for l in p.stdout.split('\n') if l.startswith(('VIOLATION', 'UNDECIDED', 'OK'))]
    verdict = 'VIOLATION' if p.returncode == 1 else ('UNDECIDED' if p.returncode == 2 else 'MISSED (check passed)')
    obl = [l.split('obligation=')[1].split()[0] for l in lines if 'obligation=' in l][:3]
    meta['check_result'] = {'cmd': './check %s' % prop, 'exit': p.returncode, 'verdict': verdict, 'obligations': obl, 'first_lines': [l[:300] for l in lines[:3]]}
    json.dump(meta, open(os.path.join(sd, 'meta.json'), 'w'), indent=1)
    rows.append((d, verdict, ', '.join(obl)[:120]))
for r in rows:
    print('%-8s %-22s %s' % r)
