#!/bin/bash
# confirm_seed.sh <prop> <k> : independently confirm a seeded change in the scratch worktree /tmp/wt-<prop>
# (clean tree: demo passes; changed tree: existing suite passes, demo fails). Writes /tmp/seed-out/<prop>/<k>/confirm.json
p=$1; k=$2; wt=/tmp/wt-$p; d=/tmp/seed-out/$p/$k
export CARGO_TARGET_DIR=$wt/target CARGO_NET_OFFLINE=true
cd $wt && git checkout -q -- . && git clean -fdq tests/ 2>/dev/null
cp $d/demo.rs tests/vxseed_demo.rs
cargo test --offline --test vxseed_demo > $d/confirm_clean_demo.log 2>&1; clean_demo=$?
git apply $d/patch.diff || { echo "{\"applied\": false}" > $d/confirm.json; exit 1; }
cargo test --offline --test vxseed_demo > $d/confirm_changed_demo.log 2>&1; changed_demo=$?
rm tests/vxseed_demo.rs
cargo test --workspace --no-fail-fast --offline > $d/confirm_changed_suite.log 2>&1; suite=$?
git checkout -q -- . ; git clean -fdq tests/ 2>/dev/null
echo "{\"applied\": true, \"demo_on_clean_exit\": $clean_demo, \"demo_on_changed_exit\": $changed_demo, \"suite_on_changed_exit\": $suite}" > $d/confirm.json
cat $d/confirm.json
