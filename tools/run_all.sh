#!/bin/bash
# Runs every claimed check (quick tier) and validates the evidence files. Use before committing evidence.
cd /verif
rc=0
for p in $(python3 -c "import json;print(' '.join(sorted(json.load(open('checks.json')))))"); do
  ./check $p --tier ${1:-quick} > /tmp/run_all_$p.log 2>&1; e=$?
  echo "$p exit=$e $(tail -1 /tmp/run_all_$p.log | cut -c1-160)"
  [ $e -ne 0 ] && rc=1
done
python3-vt - <<'PY'
import json,jsonschema,glob
sch=json.load(open('/root/.vp/EVIDENCE.schema.json'))
for f in sorted(glob.glob('/verif/evidence/*.json')):
    ev=json.load(open(f)); jsonschema.validate(ev,sch)
    c=ev['coverage']; print(f.split('/')[-1], 'valid', c['obligations'], c['discharged'], 'violations', ev.get('violations'))
jsonschema.validate(json.load(open('/verif/MANIFEST.json')), json.load(open('/root/.vp/MANIFEST.schema.json'))); print('manifest valid')
PY
exit $rc
