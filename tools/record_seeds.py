#!/usr/bin/env python3
"""Copies confirmed seeded changes from /tmp/seed-out into /verif/seeded/<prop>-<k>/ with meta.json."""
import json, os, shutil, sys
V = '/verif'
needs = json.load(open('/tmp/seed-needs.json')) if os.path.exists('/tmp/seed-needs.json') else {}
for prop in sorted(os.listdir('/tmp/seed-out')):
    for k in sorted(os.listdir('/tmp/seed-out/' + prop)):
        d = '/tmp/seed-out/%s/%s' % (prop, k)
        cj = os.path.join(d, 'confirm.json')
        if not os.path.exists(cj):
            continue
        conf = json.load(open(cj))
        if not (conf.get('applied') and conf['demo_on_clean_exit'] == 0 and conf['demo_on_changed_exit'] != 0 and conf['suite_on_changed_exit'] == 0):
            print('not confirmed', prop, k, conf)
            continue
        out = os.path.join(V, 'seeded', '%s-%s' % (prop, k))
        os.makedirs(out, exist_ok=True)
        shutil.copy(os.path.join(d, 'patch.diff'), out)
        shutil.copy(os.path.join(d, 'demo.rs'), out)
        notes = open(os.path.join(d, 'notes.txt')).read() if os.path.exists(os.path.join(d, 'notes.txt')) else ''
        if not notes and os.path.exists(os.path.join(d, 'meta.json')):
            try:
                am = json.load(open(os.path.join(d, 'meta.json')))
                notes = '%s: %s' % (am.get('title', ''), am.get('description', ''))
            except Exception:
                pass
        meta_path = os.path.join(out, 'meta.json')
        meta = json.load(open(meta_path)) if os.path.exists(meta_path) else {}
        meta.update({
            'property': prop,
            'origin': 'independent sub-agent given only the property text and a scratch worktree (no access to /verif)',
            'what_it_needs_to_manifest': needs.get('%s-%s' % (prop, k), notes[:1200]),
            'confirmed_by_me': {
                'how': 'tools/confirm_seed.sh in a scratch worktree: demo on clean tree, patch applied, demo on changed tree, full existing suite on changed tree (cargo test --workspace --no-fail-fast --offline)',
                'demo_on_clean_exit': conf['demo_on_clean_exit'], 'demo_on_changed_exit': conf['demo_on_changed_exit'], 'existing_suite_on_changed_exit': conf['suite_on_changed_exit'],
            },
        })
        json.dump(meta, open(meta_path, 'w'), indent=1)
        print('recorded', out)
