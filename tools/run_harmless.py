#!/usr/bin/env python3
"""Applies every recorded semantics-preserving edit (harmless/<id>/patch.diff) to /repo's working tree, runs the
checks of the properties whose units contain the edited function, and records the verdicts.  A check must never
answer VIOLATION (exit 1) on such an edit; exit 2 (undecided) is allowed but noted.  Restores the tree afterwards."""
import json, os, subprocess, sys
V = '/verif'
MAP = [  # (substring of meta['function'], checks to run)
    ('validate_jsr_specifier', ['C06']), ('try_load', ['C05', 'C03']), ('visit_module_dependencies', ['C01', 'C07']), ('Builder::visit', ['C05', 'C03']), ('build_fast_check_type_graph', ['C12']),
    ('resolve_dependency_from_dep', ['C14']), ('try_get', ['C14']), ('ModuleGraph::get', ['C14']), ('ModuleGraph::resolve', ['C14', 'C02']),
    ('ModuleEntryIterator', ['C15', 'C02', 'C18']), ('ModuleGraphErrorIterator', ['C02']), ('prune_types', ['C17']), ('segment', ['C18']), ('valid', ['C02']),
    ('resolve_version', ['C06']), ('get_for_package', ['C06']), ('add_nv', ['C07', 'C06']), ('add_export', ['C07']), ('export', ['C07']),
    ('resolve_jsr_nv', ['C06']), ('fill_from_lockfile', ['C06']), ('validate_jsr_specifier', ['C06']), ('new_source_with_text', ['C20']),
    ('parse_module_source_and_info', ['C20', 'C05']), ('fill_module_dependencies', ['C01']), ('includes', ['C08']),
    ('transform_package', ['C12']), ('build_fast_check_type_graph', ['C12']),
    ('resolve_pending_jsr_specifiers', ['C07', 'C03', 'C06']), ('handle_jsr_registry_pending_content_loads', ['C03', 'C20']),
    ('load_with_redirect_count', ['C07', 'C03', 'C01']), ('visit_module_dependencies', ['C01', 'C07']), ('mark_jsr_dep', ['C07']), ('mark_npm_dep', ['C07']),
    ('Builder::build', ['C01']), ('resolve_dynamic_branches', ['C01']), ('handle_provided_imports', ['C01']), ('NpmSpecifierResolver', ['C03']), ('Builder::restart', ['C06', 'C03']), ('Builder::visit', ['C05', 'C03']),
    ('maybe_mark_dep', ['C07', 'C03']), ('Builder::resolve_pending', ['C03']), ('ensure_package', ['C07']), ('add_dependency', ['C07']),
]
only = sys.argv[1:]
rows = []
for d in sorted(os.listdir(os.path.join(V, 'harmless'))):
    if only and d not in only:
        continue
    hd = os.path.join(V, 'harmless', d)
    meta = json.load(open(os.path.join(hd, 'meta.json')))
    checks = []
    for sub, cs in MAP:
        if sub in meta.get('function', ''):
            checks = cs
            break
    a = subprocess.run(['git', '-C', '/repo', 'apply', os.path.join(hd, 'patch.diff')], capture_output=True, text=True)
    if a.returncode != 0:
        rows.append((d, 'PATCH-DOES-NOT-APPLY', ''))
        continue
    res = {}
    try:
        for c in checks:
            p = subprocess.run([os.path.join(V, 'check'), c], capture_output=True, text=True, cwd=V, env=dict(os.environ, VERIF_DEV_EVIDENCE='1'))
            first = [l for l in p.stdout.split('\n') if l.startswith(('VIOLATION', 'UNDECIDED'))][:1]
            res[c] = {'exit': p.returncode, 'line': first[0][:300] if first else ''}
    finally:
        subprocess.run(['git', '-C', '/repo', 'checkout', '--', '.'])
    meta['check_results'] = res
    json.dump(meta, open(os.path.join(hd, 'meta.json'), 'w'), indent=1)
    rows.append((d, ' '.join('%s=%d' % (c, r['exit']) for c, r in res.items()), '; '.join(r['line'][:160] for r in res.values() if r['exit'] != 0)))
for r in rows:
    print('%-7s %-28s %s' % r)
