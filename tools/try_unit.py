#!/usr/bin/env python3
"""dev helper: verify one unit without sentinels and print the failing obligations"""
import sys, os
sys.path.insert(0, '/verif')
from lib import verus_unit
r = verus_unit.check_unit(os.path.join('/verif', sys.argv[1]), 'quick', sentinel=('-s' in sys.argv), pid='DEV')
print('status', r.status, 'reasons', r.reasons[:5])
for a in ('failed', 'tool_errors', 'undecided', 'extraction_errors'):
    v = getattr(r, a, None)
    if v:
        print(a + ':')
        for e in v[:int(os.environ.get('N', '12'))]:
            print('  ', str(e)[:int(os.environ.get('W', '700'))])
print('obligations', getattr(r, 'obligations', None), 'discharged', getattr(r, 'discharged', None), 'wall', round(r.wall, 1))
