#!/usr/bin/env python3
"""Regenerates MANIFEST.json from manifest_src.json (claimed checks + not_applicable)."""
import json, os
V = os.path.dirname(os.path.dirname(os.path.abspath(__file__)))
src = json.load(open(os.path.join(V, 'manifest_src.json')))
checks = []
for pid, c in sorted(src['checks'].items()):
    checks.append({
        'property_id': pid,
        'quick_cmd': './check %s --tier quick' % pid,
        'thorough_cmd': './check %s --tier thorough' % pid,
        'evidence_file': '/verif/evidence/%s.json' % pid,
        'replay_cmd_template': 'cat {path}',
        'engine': c.get('engine', 'verus'),
        'level_claimed': {'category': c.get('category', 'proof'), 'text': c['text'], 'design_ref': c.get('design_ref', 'DESIGN.md §5 ' + pid)},
        'level_note': c['note'],
        'technique': c['technique'],
    })
m = {
    'version': 1,
    'setup_cmd': 'cd /verif/tools/vx && CARGO_NET_OFFLINE=true cargo +stable build --release --offline',
    'hooks': {
        'guard': 'cfg(kani)',
        'enable': 'no source hooks: Verus units are extracted mechanically from the working tree on every run; Kani units append one `#[cfg(kani)] mod` include line to a scratch copy of the tree (cfg(kani) is only set by cargo-kani)',
        'baseline_off_cmd': 'cd /repo && cargo test --workspace --no-fail-fast --offline',
        'source_commits': src.get('source_commits', []),
        'add_only': True,
    },
    'engines': src['engines'],
    'checks': checks,
    'notes': src['notes'],
    'not_applicable': [{'property_id': k, 'reason': v} for k, v in sorted(src['not_applicable'].items())],
}
json.dump(m, open(os.path.join(V, 'MANIFEST.json'), 'w'), indent=1)
print('wrote MANIFEST.json: %d checks, %d not_applicable' % (len(checks), len(m['not_applicable'])))
