// Specification of error reporting / validation, written from the statement of C02.
verus! {

pub open spec fn for_kind(kind: ResolutionKind, e: ResolutionError) -> ModuleGraphError {
    match kind {
        ResolutionKind::Execution => ModuleGraphError::ResolutionError(e),
        ResolutionKind::Types => ModuleGraphError::TypesResolutionError(e),
    }
}
pub open spec fn mk_module_error(k: ModuleErrorKind) -> ModuleGraphError {
    ModuleGraphError::ModuleError(ModuleError(Box::new(k)))
}

/// What checking one resolution of one dependency of module `m` reports (None: nothing).
///  - a failed resolution is reported as such (for the kind it was resolved for);
///  - an `https:` module importing an `http:` target: invalid downgrade;
///  - a remote (`http:`/`https:`) module importing a `file:` target through a literal `file:…` url (leading white space ignored, any case)
///    specifier text: invalid local import;
///  - when dynamic edges are followed, a target whose entry (through redirects) is a "missing"
///    error is reported here, at the importing dependency (as missing-dynamic for dynamic ones).
/// The reported error names the failing specifier and the referring range.
pub open spec fn check_res_spec(g: ModuleGraph, fd: bool, m: Module, kind: ResolutionKind, text: Seq<char>, r: Resolution, is_dynamic: bool) -> Option<ModuleGraphError> {
    match r {
        Resolution::Ok(resolved) => {
            let rs = url_scheme(mod_specifier(m));
            let ss = url_scheme(resolved.specifier);
            if rs == "https"@ && ss == "http"@ {
                Some(for_kind(kind, ResolutionError::InvalidDowngrade { specifier: resolved.specifier, range: resolved.range }))
            } else if (rs == "https"@ || rs == "http"@) && ss == "file"@ && "file:"@.is_prefix_of(str_lower(str_trim_start(text))) {
                Some(for_kind(kind, ResolutionError::InvalidLocalImport { specifier: resolved.specifier, range: resolved.range }))
            } else if fd {
                match slot_at(g, resolve_spec(g, resolved.specifier)) {
                    Some(ModuleSlot::Err(e)) => match *e.0 {
                        ModuleErrorKind::Missing { specifier, maybe_referrer } =>
                            if is_dynamic {
                                Some(mk_module_error(ModuleErrorKind::MissingDynamic { specifier, referrer: resolved.range }))
                            } else {
                                Some(mk_module_error(ModuleErrorKind::Missing { specifier, maybe_referrer }))
                            },
                        _ => None,
                    },
                    _ => None,
                }
            } else { None }
        },
        Resolution::Err(err) => Some(for_kind(kind, *err)),
        Resolution::None => None,
    }
}

pub open spec fn check_types_of(o: WOpts, m: Module) -> bool {
    inc_types(o.kind) && checkable(o.check_js, mod_specifier(m), mod_media_type(m))
}
pub open spec fn walk_dep_keys(o: WOpts, m: Module) -> Seq<String> {
    if check_types_of(o, m) && o.prefer_fc { mod_dep_keys_prefer_fc(m) } else { mod_dep_keys(m) }
}
/// what one dependency (text, dep) of module `m` reports
pub open spec fn dep_failure(g: ModuleGraph, o: WOpts, m: Module, text: Seq<char>, d: Dependency, e: ModuleGraphError) -> bool {
    dep_followed(o, d) && (
        check_res_spec(g, o.follow_dynamic, m, ResolutionKind::Execution, text, d.maybe_code, d.is_dynamic) == Some(e)
        || (check_types_of(o, m) && check_res_spec(g, o.follow_dynamic, m, ResolutionKind::Types, text, d.maybe_type, d.is_dynamic) == Some(e))
    )
}
pub open spec fn types_dep_failure(g: ModuleGraph, o: WOpts, m: Module, e: ModuleGraphError) -> bool {
    inc_types(o.kind) && match m {
        Module::Js(x) => match x.maybe_types_dependency {
            Some(td) => check_res_spec(g, o.follow_dynamic, m, ResolutionKind::Types, td.specifier@, td.dependency, false) == Some(e),
            None => false,
        },
        _ => false,
    }
}
pub open spec fn deps_failure_upto(g: ModuleGraph, o: WOpts, m: Module, keys: Seq<String>, vals: Seq<Dependency>, n: int, e: ModuleGraphError) -> bool {
    exists|i: int| 0 <= i < n && i < vals.len() && i < keys.len() && #[trigger] dep_failure(g, o, m, keys[i]@, vals[i], e)
}
/// the errors the error listing attaches to one visited entry
pub open spec fn entry_failure(g: ModuleGraph, o: WOpts, en: EntryV, e: ModuleGraphError) -> bool {
    match en {
        EntryV::Module(m) => types_dep_failure(g, o, m, e)
            || deps_failure_upto(g, o, m, walk_dep_keys(o, m), walk_deps(o, m), walk_deps(o, m).len() as int, e),
        // a "missing" entry is not reported at the entry when dynamic edges are followed: it is
        // reported at the importing dependency instead (see check_res_spec)
        EntryV::Err(err) => !(o.follow_dynamic && (*err.0) is Missing) && e == ModuleGraphError::ModuleError(err),
        _ => false,
    }
}

pub open spec fn in_errs(v: Seq<ModuleGraphError>, e: ModuleGraphError) -> bool {
    exists|i: int| 0 <= i < v.len() && #[trigger] v[i] == e
}

/// a chain of `next()` calls on the wrapped walk
pub open spec fn chain_failure(g: ModuleGraph, o: WOpts, rss: Seq<Option<(&Url, ModuleEntryRef)>>, n: int, e: ModuleGraphError) -> bool {
    exists|i: int| 0 <= i < n && i < rss.len() && (#[trigger] rss[i]) is Some && entry_failure(g, o, entry_val(rss[i].unwrap().1), e)
}

/// the transition relation of one `next()` of the error iterator, with its witness chain
pub open spec fn err_next_rel_w(a: ModuleGraphErrorIterator, b: ModuleGraphErrorIterator, r: Option<ModuleGraphError>,
                               sts: Seq<ModuleEntryIterator>, rss: Seq<Option<(&Url, ModuleEntryRef)>>) -> bool {
    let g = *a.iterator.graph;
    let o = opts_of(a.iterator);
    &&& is_chain(sts, rss) && sts[0] == a.iterator && sts.last() == b.iterator
    // only the last underlying answer can be "exhausted"
    &&& forall|i: int| 0 <= i < rss.len() - 1 ==> (#[trigger] rss[i]) is Some
    // nothing is lost, nothing is invented: what is pending afterwards plus what is returned is
    // what was pending before plus the errors attached to the entries visited by this call
    &&& forall|e: ModuleGraphError| (in_errs(b.next_errors@, e) || r == Some(e)) <==> (in_errs(a.next_errors@, e) || chain_failure(g, o, rss, rss.len() as int, e))
    &&& r is None ==> b.next_errors@.len() == 0 && a.next_errors@.len() == 0 && rss.len() > 0 && rss.last() is None
    &&& a.next_errors@.len() > 0 ==> rss.len() == 0
}
pub open spec fn err_next_rel(a: ModuleGraphErrorIterator, b: ModuleGraphErrorIterator, r: Option<ModuleGraphError>) -> bool {
    exists|sts: Seq<ModuleEntryIterator>, rss: Seq<Option<(&Url, ModuleEntryRef)>>| #[trigger] err_next_rel_w(a, b, r, sts, rss)
}

} // verus!
verus! {
pub proof fn lemma_in_errs_push(v: Seq<ModuleGraphError>, x: ModuleGraphError)
    ensures forall|e: ModuleGraphError| in_errs(v.push(x), e) <==> (in_errs(v, e) || e == x),
{
    assert forall|e: ModuleGraphError| in_errs(v.push(x), e) <==> (in_errs(v, e) || e == x) by {
        let w = v.push(x);
        if in_errs(w, e) {
            let i = choose|i: int| 0 <= i < w.len() && #[trigger] w[i] == e;
            if i < v.len() { assert(v[i] == e); }
        }
        if in_errs(v, e) {
            let i = choose|i: int| 0 <= i < v.len() && #[trigger] v[i] == e;
            assert(w[i] == e);
        }
        if e == x { assert(w[v.len() as int] == e); }
    }
}
/// robust form: the pushed sequence is named
pub proof fn lemma_in_errs_pushed(v: Seq<ModuleGraphError>, x: ModuleGraphError, w: Seq<ModuleGraphError>)
    requires w == v.push(x),
    ensures forall|e: ModuleGraphError| #[trigger] in_errs(w, e) <==> (in_errs(v, e) || e == x),
{
    lemma_in_errs_push(v, x);
}
pub proof fn lemma_in_errs_same(v: Seq<ModuleGraphError>, w: Seq<ModuleGraphError>)
    requires w == v,
    ensures forall|e: ModuleGraphError| #[trigger] in_errs(w, e) <==> in_errs(v, e),
{
}
/// a characterisation of the members of `v` carries over to an equal sequence `w`
pub proof fn lemma_in_errs_transfer(v: Seq<ModuleGraphError>, w: Seq<ModuleGraphError>, p: spec_fn(ModuleGraphError) -> bool)
    requires w == v, forall|e: ModuleGraphError| #[trigger] in_errs(v, e) <==> p(e),
    ensures forall|e: ModuleGraphError| #[trigger] in_errs(w, e) <==> p(e),
{
}
/// (named invariants keep the proof of `next()` independent of quantifier instantiation luck)
pub open spec fn errs_are(v: Seq<ModuleGraphError>, base: Seq<ModuleGraphError>, p: spec_fn(ModuleGraphError) -> bool) -> bool {
    forall|e: ModuleGraphError| #[trigger] in_errs(v, e) <==> (in_errs(base, e) || p(e))
}
pub open spec fn p_module_prefix(g: ModuleGraph, o: WOpts, m: Module, keys: Seq<String>, vals: Seq<Dependency>, idx: int) -> spec_fn(ModuleGraphError) -> bool {
    |e: ModuleGraphError| types_dep_failure(g, o, m, e) || deps_failure_upto(g, o, m, keys, vals, idx, e)
}
pub open spec fn p_entry(g: ModuleGraph, o: WOpts, en: EntryV) -> spec_fn(ModuleGraphError) -> bool {
    |e: ModuleGraphError| entry_failure(g, o, en, e)
}
pub open spec fn p_chain(g: ModuleGraph, o: WOpts, rss: Seq<Option<(&Url, ModuleEntryRef)>>) -> spec_fn(ModuleGraphError) -> bool {
    |e: ModuleGraphError| chain_failure(g, o, rss, rss.len() as int, e)
}

/// the module's own types dependency has been checked: prefix 0
pub proof fn lemma_prefix_init(g: ModuleGraph, o: WOpts, m: Module, keys: Seq<String>, vals: Seq<Dependency>, v: Seq<ModuleGraphError>, errs0: Seq<ModuleGraphError>, t: Option<ModuleGraphError>)
    requires
        t == (if inc_types(o.kind) && m is Js && m->Js_0.maybe_types_dependency is Some {
                check_res_spec(g, o.follow_dynamic, m, ResolutionKind::Types, m->Js_0.maybe_types_dependency.unwrap().specifier@, m->Js_0.maybe_types_dependency.unwrap().dependency, false)
              } else { None }),
        v == (if t is Some { errs0.push(t.unwrap()) } else { errs0 }),
    ensures errs_are(v, errs0, p_module_prefix(g, o, m, keys, vals, 0)),
{
    if t is Some { lemma_in_errs_push(errs0, t.unwrap()); }
    assert forall|e: ModuleGraphError| #[trigger] in_errs(v, e) <==> (in_errs(errs0, e) || p_module_prefix(g, o, m, keys, vals, 0)(e)) by {
        assert(!deps_failure_upto(g, o, m, keys, vals, 0, e));
        match m {
            Module::Js(x) => { match x.maybe_types_dependency { Some(td) => { }, None => { } } },
            _ => { },
        }
        assert(types_dep_failure(g, o, m, e) <==> t == Some(e));
        if t is Some { lemma_in_errs_pushed(errs0, t.unwrap(), v); assert(in_errs(v, e) <==> (in_errs(errs0, e) || e == t.unwrap())); } else { assert(v == errs0); }
    }
}
/// one more dependency (index idx-1) has been checked
pub proof fn lemma_prefix_step(g: ModuleGraph, o: WOpts, m: Module, keys: Seq<String>, vals: Seq<Dependency>, idx: int,
                               v0: Seq<ModuleGraphError>, v1: Seq<ModuleGraphError>, errs0: Seq<ModuleGraphError>, check_types: bool)
    requires
        1 <= idx <= vals.len(), keys.len() == vals.len(), check_types == check_types_of(o, m),
        errs_are(v0, errs0, p_module_prefix(g, o, m, keys, vals, idx - 1)),
        ({
            let d = vals[idx - 1];
            let code = check_res_spec(g, o.follow_dynamic, m, ResolutionKind::Execution, keys[idx - 1]@, d.maybe_code, d.is_dynamic);
            let typ = check_res_spec(g, o.follow_dynamic, m, ResolutionKind::Types, keys[idx - 1]@, d.maybe_type, d.is_dynamic);
            let vm = if dep_followed(o, d) && code is Some { v0.push(code.unwrap()) } else { v0 };
            v1 == (if dep_followed(o, d) && check_types && typ is Some { vm.push(typ.unwrap()) } else { vm })
        }),
    ensures errs_are(v1, errs0, p_module_prefix(g, o, m, keys, vals, idx)),
{
    let d = vals[idx - 1];
    let code = check_res_spec(g, o.follow_dynamic, m, ResolutionKind::Execution, keys[idx - 1]@, d.maybe_code, d.is_dynamic);
    let typ = check_res_spec(g, o.follow_dynamic, m, ResolutionKind::Types, keys[idx - 1]@, d.maybe_type, d.is_dynamic);
    let vm = if dep_followed(o, d) && code is Some { v0.push(code.unwrap()) } else { v0 };
    if dep_followed(o, d) && code is Some { lemma_in_errs_push(v0, code.unwrap()); }
    if dep_followed(o, d) && check_types && typ is Some { lemma_in_errs_push(vm, typ.unwrap()); }
    assert forall|e: ModuleGraphError| #[trigger] in_errs(v1, e) <==> (in_errs(errs0, e) || p_module_prefix(g, o, m, keys, vals, idx)(e)) by {
        assert(in_errs(v0, e) <==> (in_errs(errs0, e) || p_module_prefix(g, o, m, keys, vals, idx - 1)(e)));
        assert(in_errs(v1, e) <==> (in_errs(v0, e) || dep_failure(g, o, m, keys[idx - 1]@, vals[idx - 1], e)));
        if deps_failure_upto(g, o, m, keys, vals, idx, e) && !deps_failure_upto(g, o, m, keys, vals, idx - 1, e) {
            let i = choose|i: int| 0 <= i < idx && i < vals.len() && i < keys.len() && #[trigger] dep_failure(g, o, m, keys[i]@, vals[i], e);
            assert(i == idx - 1);
        }
        if deps_failure_upto(g, o, m, keys, vals, idx - 1, e) {
            let i = choose|i: int| 0 <= i < idx - 1 && i < vals.len() && i < keys.len() && #[trigger] dep_failure(g, o, m, keys[i]@, vals[i], e);
            assert(0 <= i < idx);
        }
    }
}
/// all dependencies checked: the pending errors gained exactly the errors attached to the entry
pub proof fn lemma_prefix_done(g: ModuleGraph, o: WOpts, m: Module, keys: Seq<String>, vals: Seq<Dependency>, idx: int, v: Seq<ModuleGraphError>, errs0: Seq<ModuleGraphError>)
    requires
        keys == walk_dep_keys(o, m), vals == walk_deps(o, m), idx == vals.len(),
        errs_are(v, errs0, p_module_prefix(g, o, m, keys, vals, idx)),
    ensures errs_are(v, errs0, p_entry(g, o, EntryV::Module(m))),
{
    assert forall|e: ModuleGraphError| #[trigger] in_errs(v, e) <==> (in_errs(errs0, e) || p_entry(g, o, EntryV::Module(m))(e)) by {
        assert(in_errs(v, e) <==> (in_errs(errs0, e) || p_module_prefix(g, o, m, keys, vals, idx)(e)));
    }
}
/// an error / redirect entry
pub proof fn lemma_simple_entry(g: ModuleGraph, o: WOpts, en: EntryV, v: Seq<ModuleGraphError>, errs0: Seq<ModuleGraphError>)
    requires
        en is Err || en is Redirect,
        v == (if en is Err && !(o.follow_dynamic && (*en->Err_0.0) is Missing) { errs0.push(ModuleGraphError::ModuleError(en->Err_0)) } else { errs0 }),
    ensures errs_are(v, errs0, p_entry(g, o, en)),
{
    if en is Err && !(o.follow_dynamic && (*en->Err_0.0) is Missing) { lemma_in_errs_push(errs0, ModuleGraphError::ModuleError(en->Err_0)); }
    assert forall|e: ModuleGraphError| #[trigger] in_errs(v, e) <==> (in_errs(errs0, e) || p_entry(g, o, en)(e)) by { }
}
/// one more entry of the chain handled, starting from no pending errors
pub proof fn lemma_outer_step(g: ModuleGraph, o: WOpts, a_errs: Seq<ModuleGraphError>, errs0: Seq<ModuleGraphError>, v: Seq<ModuleGraphError>,
                              rss0: Seq<Option<(&Url, ModuleEntryRef)>>, r: Option<(&Url, ModuleEntryRef)>)
    requires
        errs0.len() == 0, r is Some,
        errs_are(errs0, a_errs, p_chain(g, o, rss0)),
        errs_are(v, errs0, p_entry(g, o, entry_val(r.unwrap().1))),
    ensures errs_are(v, a_errs, p_chain(g, o, rss0.push(r))),
{
    lemma_chain_failure_push(g, o, rss0, r);
    let rss = rss0.push(r);
    assert forall|e: ModuleGraphError| #[trigger] in_errs(v, e) <==> (in_errs(a_errs, e) || p_chain(g, o, rss)(e)) by {
        assert(in_errs(errs0, e) <==> (in_errs(a_errs, e) || p_chain(g, o, rss0)(e)));
        assert(!in_errs(errs0, e));
        assert(in_errs(v, e) <==> (in_errs(errs0, e) || p_entry(g, o, entry_val(r.unwrap().1))(e)));
        assert(chain_failure(g, o, rss, rss0.len() as int + 1, e) <==> (chain_failure(g, o, rss0, rss0.len() as int, e) || entry_failure(g, o, entry_val(r.unwrap().1), e)));
        assert(rss.len() == rss0.len() + 1);
    }
}
pub proof fn lemma_outer_init(g: ModuleGraph, o: WOpts, v: Seq<ModuleGraphError>)
    ensures errs_are(v, v, p_chain(g, o, Seq::empty())),
{
    assert forall|e: ModuleGraphError| #[trigger] in_errs(v, e) <==> (in_errs(v, e) || p_chain(g, o, Seq::<Option<(&Url, ModuleEntryRef)>>::empty())(e)) by {
        assert(!chain_failure(g, o, Seq::<Option<(&Url, ModuleEntryRef)>>::empty(), 0, e));
    }
}
/// the exhausted answer adds nothing
pub proof fn lemma_outer_none(g: ModuleGraph, o: WOpts, a_errs: Seq<ModuleGraphError>, v: Seq<ModuleGraphError>, rss0: Seq<Option<(&Url, ModuleEntryRef)>>)
    requires errs_are(v, a_errs, p_chain(g, o, rss0)),
    ensures errs_are(v, a_errs, p_chain(g, o, rss0.push(None))),
{
    lemma_chain_failure_push(g, o, rss0, None);
    let rss = rss0.push(None);
    assert forall|e: ModuleGraphError| #[trigger] in_errs(v, e) <==> (in_errs(a_errs, e) || p_chain(g, o, rss)(e)) by {
        assert(in_errs(v, e) <==> (in_errs(a_errs, e) || p_chain(g, o, rss0)(e)));
        assert(rss.len() == rss0.len() + 1);
        assert(chain_failure(g, o, rss, rss0.len() as int + 1, e) <==> (chain_failure(g, o, rss0, rss0.len() as int, e) || false));
    }
}
/// the final pop and the packaging into the transition relation
pub proof fn lemma_err_next_finish(a: ModuleGraphErrorIterator, b: ModuleGraphErrorIterator, vpre: Seq<ModuleGraphError>, r: Option<ModuleGraphError>,
                                   sts: Seq<ModuleEntryIterator>, rss: Seq<Option<(&Url, ModuleEntryRef)>>)
    requires
        is_chain(sts, rss), sts[0] == a.iterator, sts.last() == b.iterator,
        forall|i: int| 0 <= i < rss.len() - 1 ==> (#[trigger] rss[i]) is Some,
        errs_are(vpre, a.next_errors@, p_chain(*a.iterator.graph, opts_of(a.iterator), rss)),
        vpre.len() == 0 ==> rss.len() > 0 && rss.last() is None,
        a.next_errors@.len() > 0 ==> rss.len() == 0,
        r == (if vpre.len() > 0 { Some(vpre.last()) } else { None }),
        b.next_errors@ == (if vpre.len() > 0 { vpre.drop_last() } else { vpre }),
    ensures err_next_rel(a, b, r),
{
    let g = *a.iterator.graph;
    let o = opts_of(a.iterator);
    if vpre.len() > 0 { lemma_in_errs_pop(vpre); }
    assert forall|e: ModuleGraphError| (in_errs(b.next_errors@, e) || r == Some(e)) <==> (in_errs(a.next_errors@, e) || chain_failure(g, o, rss, rss.len() as int, e)) by {
        assert(in_errs(vpre, e) <==> (in_errs(a.next_errors@, e) || p_chain(g, o, rss)(e)));
        if vpre.len() == 0 { assert(!in_errs(vpre, e)); }
    }
    if r is None {
        assert(a.next_errors@.len() == 0) by {
            if a.next_errors@.len() > 0 {
                let e0 = a.next_errors@[0];
                assert(in_errs(a.next_errors@, e0));
                assert(in_errs(vpre, e0) <==> (in_errs(a.next_errors@, e0) || p_chain(g, o, rss)(e0)));
                let i = choose|i: int| 0 <= i < vpre.len() && #[trigger] vpre[i] == e0;
            }
        }
    }
    assert(err_next_rel_w(a, b, r, sts, rss));
}

/// after all dependencies of a module entry were checked, the pending errors gained exactly the
/// errors attached to that entry
pub proof fn lemma_module_entry_failure(g: ModuleGraph, o: WOpts, m: Module, keys: Seq<String>, vals: Seq<Dependency>, idx: int, v: Seq<ModuleGraphError>, errs0: Seq<ModuleGraphError>)
    requires
        keys == walk_dep_keys(o, m), vals == walk_deps(o, m), idx == vals.len(),
        forall|e: ModuleGraphError| in_errs(v, e) <==> (in_errs(errs0, e) || types_dep_failure(g, o, m, e) || deps_failure_upto(g, o, m, keys, vals, idx, e)),
    ensures
        forall|e: ModuleGraphError| in_errs(v, e) <==> (in_errs(errs0, e) || entry_failure(g, o, EntryV::Module(m), e)),
{
    assert forall|e: ModuleGraphError| in_errs(v, e) <==> (in_errs(errs0, e) || entry_failure(g, o, EntryV::Module(m), e)) by {
        assert(in_errs(v, e) <==> (in_errs(errs0, e) || types_dep_failure(g, o, m, e) || deps_failure_upto(g, o, m, keys, vals, idx, e)));
        assert(deps_failure_upto(g, o, m, keys, vals, idx, e) == deps_failure_upto(g, o, m, walk_dep_keys(o, m), walk_deps(o, m), walk_deps(o, m).len() as int, e));
    }
}
pub proof fn lemma_in_errs_pop(v: Seq<ModuleGraphError>)
    requires v.len() > 0,
    ensures forall|e: ModuleGraphError| in_errs(v, e) <==> (in_errs(v.drop_last(), e) || e == v.last()),
{
    assert(v =~= v.drop_last().push(v.last()));
    lemma_in_errs_push(v.drop_last(), v.last());
}
pub proof fn lemma_chain_failure_push(g: ModuleGraph, o: WOpts, rss: Seq<Option<(&Url, ModuleEntryRef)>>, r: Option<(&Url, ModuleEntryRef)>)
    ensures forall|e: ModuleGraphError| chain_failure(g, o, rss.push(r), rss.len() as int + 1, e)
        <==> (chain_failure(g, o, rss, rss.len() as int, e) || (r is Some && entry_failure(g, o, entry_val(r.unwrap().1), e))),
{
    let r2 = rss.push(r);
    assert forall|e: ModuleGraphError| chain_failure(g, o, r2, rss.len() as int + 1, e)
        <==> (chain_failure(g, o, rss, rss.len() as int, e) || (r is Some && entry_failure(g, o, entry_val(r.unwrap().1), e))) by {
        if chain_failure(g, o, r2, rss.len() as int + 1, e) {
            let i = choose|i: int| 0 <= i < rss.len() + 1 && i < r2.len() && (#[trigger] r2[i]) is Some && entry_failure(g, o, entry_val(r2[i].unwrap().1), e);
            if i < rss.len() { assert(r2[i] == rss[i]); assert(rss[i] is Some); }
        }
        if chain_failure(g, o, rss, rss.len() as int, e) {
            let i = choose|i: int| 0 <= i < rss.len() && (#[trigger] rss[i]) is Some && entry_failure(g, o, entry_val(rss[i].unwrap().1), e);
            assert(r2[i] == rss[i]);
            assert(r2[i] is Some);
        }
        if r is Some && entry_failure(g, o, entry_val(r.unwrap().1), e) {
            assert(r2[rss.len() as int] == r);
            assert(r2[rss.len() as int] is Some);
        }
    }
}
} // verus!
verus! {
} // verus!
// ---- C02 over the contracts: validation succeeds iff no failure is attached to a reachable entry
verus! {

/// some visited entry has an error attached
pub open spec fn has_reachable_failure(g: ModuleGraph, o: WOpts, roots: Seq<&Url>) -> bool {
    exists|t: Url, e: ModuleGraphError| reach(g, o, roots, t) && yields(g, o, t) && #[trigger] entry_failure(g, o, entry_of(g, t), e)
}
/// what `validate()` answers, relative to the walk it consumes (witness chain explicit)
pub open spec fn validate_post_w(it: ModuleEntryIterator, r: Result<(), ModuleGraphError>,
                                sts: Seq<ModuleEntryIterator>, rss: Seq<Option<(&Url, ModuleEntryRef)>>) -> bool {
    let g = *it.graph;
    let o = opts_of(it);
    &&& is_chain(sts, rss) && sts[0] == it
    &&& match r {
          Ok(_) => rss.len() > 0 && rss.last() is None && forall|e: ModuleGraphError| !chain_failure(g, o, rss, rss.len() as int, e),
          Err(e) => chain_failure(g, o, rss, rss.len() as int, e),
        }
}
pub open spec fn validate_post(it: ModuleEntryIterator, r: Result<(), ModuleGraphError>) -> bool {
    exists|sts: Seq<ModuleEntryIterator>, rss: Seq<Option<(&Url, ModuleEntryRef)>>| #[trigger] validate_post_w(it, r, sts, rss)
}

pub proof fn lemma_validate_from_next(it: ModuleEntryIterator, a: ModuleGraphErrorIterator, rr: Option<ModuleGraphError>)
    requires a.iterator == it, a.next_errors@.len() == 0, exists|b: ModuleGraphErrorIterator| #[trigger] err_next_rel(a, b, rr),
    ensures validate_post(it, match rr { Some(e) => Err(e), None => Ok(()) }),
{
    let b = choose|b: ModuleGraphErrorIterator| #[trigger] err_next_rel(a, b, rr);
    let (sts, rss) = choose|sts: Seq<ModuleEntryIterator>, rss: Seq<Option<(&Url, ModuleEntryRef)>>| #[trigger] err_next_rel_w(a, b, rr, sts, rss);
    let g = *it.graph;
    let o = opts_of(it);
    let r: Result<(), ModuleGraphError> = match rr { Some(e) => Err(e), None => Ok(()) };
    assert(forall|e: ModuleGraphError| !in_errs(a.next_errors@, e));
    match rr {
        Some(e) => {
            assert((in_errs(b.next_errors@, e) || rr == Some(e)) <==> (in_errs(a.next_errors@, e) || chain_failure(g, o, rss, rss.len() as int, e)));
            assert(chain_failure(g, o, rss, rss.len() as int, e));
        },
        None => {
            assert forall|e: ModuleGraphError| !chain_failure(g, o, rss, rss.len() as int, e) by {
                if chain_failure(g, o, rss, rss.len() as int, e) {
                    assert((in_errs(b.next_errors@, e) || rr == Some(e)) <==> (in_errs(a.next_errors@, e) || chain_failure(g, o, rss, rss.len() as int, e)));
                    assert(in_errs(b.next_errors@, e));
                    let i = choose|i: int| 0 <= i < b.next_errors@.len() && #[trigger] b.next_errors@[i] == e;
                }
            }
        },
    }
    assert(validate_post_w(it, r, sts, rss));
}

/// C02: validation succeeds if and only if no failure is attached to an entry reachable along
/// the edges the options select
pub proof fn theorem_validate_iff_no_reachable_failure(g: ModuleGraph, w: WalkOptions, roots: Seq<&Url>, it: ModuleEntryIterator, r: Result<(), ModuleGraphError>)
    requires init_state(g, w, roots, it), wf(it), validate_post(it, r),
    ensures
        r is Ok <==> !has_reachable_failure(g, wopts(w), roots), // [validate_iff_no_reachable_failure]
        // the reported error is one attached to a reachable entry ("never invented")
        r is Err ==> exists|t: Url| reach(g, wopts(w), roots, t) && yields(g, wopts(w), t) && #[trigger] entry_failure(g, wopts(w), entry_of(g, t), r->Err_0),
{
    let o = wopts(w);
    let (sts, rss) = choose|sts: Seq<ModuleEntryIterator>, rss: Seq<Option<(&Url, ModuleEntryRef)>>| #[trigger] validate_post_w(it, r, sts, rss);
    let tr = WalkTrace { states: sts, results: rss };
    assert(is_trace(g, w, roots, tr));
    match r {
        Ok(_) => {
            if has_reachable_failure(g, o, roots) {
                let (t, e) = choose|t: Url, e: ModuleGraphError| reach(g, o, roots, t) && yields(g, o, t) && #[trigger] entry_failure(g, o, entry_of(g, t), e);
                theorem_exhaustion_yields_all_reachable(g, w, roots, tr, t);
                let i = choose|i: int| 0 <= i < rss.len() && i < tr.results.len() && (#[trigger] tr.results[i]) is Some && *tr.results[i].unwrap().0 == t;
                theorem_yields_only_reachable(g, w, roots, tr, i);
                assert(entry_val(rss[i].unwrap().1) == entry_of(g, t));
                assert(chain_failure(g, o, rss, rss.len() as int, e));
            }
        },
        Err(e) => {
            let i = choose|i: int| 0 <= i < rss.len() && (#[trigger] rss[i]) is Some && entry_failure(g, o, entry_val(rss[i].unwrap().1), e);
            theorem_yields_only_reachable(g, w, roots, tr, i);
            let t = *rss[i].unwrap().0;
            assert(reach(g, o, roots, t) && yields(g, o, t) && entry_failure(g, o, entry_of(g, t), e));
        },
    }
}

/// C02: "a failure confined to type-only edges or to dynamic edges that are not followed never
/// fails code validation": under the options of `valid()` only static code edges are followed and
/// only code resolutions are checked
pub proof fn lemma_code_validation_ignores_types_and_dynamic(g: ModuleGraph, o: WOpts, m: Module, text: Seq<char>, d: Dependency, e: ModuleGraphError)
    requires o.kind == GraphKind::CodeOnly, !o.follow_dynamic,
    ensures
        dep_failure(g, o, m, text, d, e) ==> !d.is_dynamic && check_res_spec(g, false, m, ResolutionKind::Execution, text, d.maybe_code, false) == Some(e),
        !types_dep_failure(g, o, m, e),
        forall|t: Url| dep_points_to(o, d, t) <==> res_specifier(d.maybe_code) == Some(t),
{
}

} // verus!
verus! {
pub open spec fn valid_walk_options() -> WalkOptions<'static> {
    WalkOptions { check_js: CheckJsOption::True, kind: GraphKind::CodeOnly, follow_dynamic: false, prefer_fast_check_graph: false }
}
/// `rs` is the graph's own root list
pub open spec fn is_roots_of(g: ModuleGraph, rs: Seq<&Url>) -> bool {
    rs.len() == is_seq(g.roots).len() && forall|i: int| 0 <= i < rs.len() ==> *(#[trigger] rs[i]) == is_seq(g.roots)[i]
}
/// what `valid()` answers: the first error of the code-only, static-only walk from the graph's roots
pub open spec fn valid_post(g: ModuleGraph, r: Result<(), ModuleGraphError>) -> bool {
    exists|it: ModuleEntryIterator, rs: Seq<&Url>| #[trigger] init_state(g, valid_walk_options(), rs, it)
        && is_roots_of(g, rs) && wf(it) && validate_post(it, r)
}

/// C02 for `valid()`: default code validation succeeds iff no failure is attached to an entry
/// reachable from the graph's roots along static code edges
pub proof fn theorem_valid_iff_no_reachable_code_failure(g: ModuleGraph, r: Result<(), ModuleGraphError>)
    requires valid_post(g, r),
    ensures exists|rs: Seq<&Url>| #[trigger] is_roots_of(g, rs) && (r is Ok <==> !has_reachable_failure(g, wopts(valid_walk_options()), rs)), // [valid_iff_no_reachable_code_failure]
{
    let (it, rs) = choose|it: ModuleEntryIterator, rs: Seq<&Url>| #[trigger] init_state(g, valid_walk_options(), rs, it)
        && is_roots_of(g, rs) && wf(it) && validate_post(it, r);
    theorem_validate_iff_no_reachable_failure(g, valid_walk_options(), rs, it, r);
    assert(is_roots_of(g, rs));
}
} // verus!
// ---- link to the wording of C02 ("load failure, parse failure, unsupported-module error, failed
// resolution, HTTPS-to-HTTP import, remote module importing a literal file: URL")
verus! {

/// a failure in the sense of the statement, attached to a visited entry: the entry itself is an
/// error entry (load / parse / unsupported / missing ...), or it is a module with a followed
/// dependency whose (checked) resolution failed or violates the downgrade / local-import policy
pub open spec fn stmt_entry_failure(g: ModuleGraph, o: WOpts, en: EntryV) -> bool {
    match en {
        EntryV::Err(_) => true,
        EntryV::Module(m) => exists|e: ModuleGraphError| #[trigger] entry_failure(g, WOpts { follow_dynamic: o.follow_dynamic, kind: o.kind, check_js: o.check_js, prefer_fc: o.prefer_fc }, en, e)
            && !is_in_place_missing_report(e),
        _ => false,
    }
}
/// the two shapes `check_res_spec` uses to report a missing target at the importing dependency
pub open spec fn is_in_place_missing_report(e: ModuleGraphError) -> bool {
    e is ModuleError && ((*e->ModuleError_0.0) is Missing || (*e->ModuleError_0.0) is MissingDynamic)
}
pub open spec fn has_reachable_stmt_failure(g: ModuleGraph, o: WOpts, roots: Seq<&Url>) -> bool {
    exists|t: Url| reach(g, o, roots, t) && yields(g, o, t) && #[trigger] stmt_entry_failure(g, o, entry_of(g, t))
}

/// C02, dynamic edges NOT followed (this includes `valid()`): the errors the listing attaches to an
/// entry are exactly the statement's failures — nothing is skipped, nothing is added
pub proof fn theorem_static_failures_match_statement(g: ModuleGraph, o: WOpts, en: EntryV)
    requires !o.follow_dynamic,
    ensures (exists|e: ModuleGraphError| #[trigger] entry_failure(g, o, en, e)) <==> stmt_entry_failure(g, o, en), // [static_failures_match_statement]
{
    let o2 = WOpts { follow_dynamic: o.follow_dynamic, kind: o.kind, check_js: o.check_js, prefer_fc: o.prefer_fc };
    assert(o2 == o);
    match en {
        EntryV::Err(err) => { assert(entry_failure(g, o, en, ModuleGraphError::ModuleError(err))); },
        EntryV::Module(m) => {
            if exists|e: ModuleGraphError| #[trigger] entry_failure(g, o, en, e) {
                let e = choose|e: ModuleGraphError| #[trigger] entry_failure(g, o, en, e);
                lemma_static_report_is_not_missing(g, o, m, e);
            }
        },
        _ => { },
    }
}
proof fn lemma_static_report_is_not_missing(g: ModuleGraph, o: WOpts, m: Module, e: ModuleGraphError)
    requires !o.follow_dynamic, entry_failure(g, o, EntryV::Module(m), e),
    ensures !is_in_place_missing_report(e),
{
    let keys = walk_dep_keys(o, m);
    let vals = walk_deps(o, m);
    if types_dep_failure(g, o, m, e) { } else {
        let i = choose|i: int| 0 <= i < vals.len() && i < vals.len() && i < keys.len() && #[trigger] dep_failure(g, o, m, keys[i]@, vals[i], e);
    }
}

/// C02 carve-out (known finding F2): when dynamic edges ARE followed a "missing" entry is reported
/// only at an importing dependency.  `missing_covered` says every reachable missing entry has such
/// a reporting dependency; it fails e.g. for a missing root or a missing configured type import.
pub open spec fn missing_covered(g: ModuleGraph, o: WOpts, roots: Seq<&Url>) -> bool {
    forall|t: Url| reach(g, o, roots, t) && (#[trigger] entry_of(g, t)) is Err && (*entry_of(g, t)->Err_0.0) is Missing
        ==> exists|s: Url, e: ModuleGraphError| reach(g, o, roots, s) && yields(g, o, s) && #[trigger] entry_failure(g, o, entry_of(g, s), e)
}

/// C02, dynamic edges followed: "a reachable failure is never silently skipped" — under the
/// carve-out above
pub proof fn theorem_dynamic_failures_not_skipped(g: ModuleGraph, o: WOpts, roots: Seq<&Url>)
    requires o.follow_dynamic, missing_covered(g, o, roots), has_reachable_stmt_failure(g, o, roots),
    ensures has_reachable_failure(g, o, roots), // [dynamic_failures_not_skipped_given_missing_covered]
{
    let t = choose|t: Url| reach(g, o, roots, t) && yields(g, o, t) && #[trigger] stmt_entry_failure(g, o, entry_of(g, t));
    let en = entry_of(g, t);
    match en {
        EntryV::Err(err) => {
            if (*err.0) is Missing {
                let (s, e) = choose|s: Url, e: ModuleGraphError| reach(g, o, roots, s) && yields(g, o, s) && #[trigger] entry_failure(g, o, entry_of(g, s), e);
            } else {
                assert(entry_failure(g, o, en, ModuleGraphError::ModuleError(err)));
            }
        },
        EntryV::Module(m) => {
            let o2 = WOpts { follow_dynamic: o.follow_dynamic, kind: o.kind, check_js: o.check_js, prefer_fc: o.prefer_fc };
            assert(o2 == o);
            let e = choose|e: ModuleGraphError| #[trigger] entry_failure(g, o2, en, e) && !is_in_place_missing_report(e);
            assert(entry_failure(g, o, en, e));
        },
        _ => { },
    }
}

} // verus!
