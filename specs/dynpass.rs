// C01: "the graph contains exactly the modules reachable from the roots and configured imports by following the
// dependencies ..." — the two steps that turn queued dynamic branches and configured imports into load requests
verus! {
pub open spec fn branch_request(u: Url, b: PendingDynamicBranch) -> LoadRequest {
    LoadRequest { specifier: u, referrer: Some(b.range), in_dynamic_branch: true }
}
/// the requests for the first `n` queued branches, in the order the queue hands them out
pub open spec fn branch_reqs(all: Seq<(Url, PendingDynamicBranch)>, n: int) -> Seq<LoadRequest> {
    Seq::new(n as nat, |i: int| branch_request(all[i].0, all[i].1))
}
/// `ks` lists every queued branch exactly once, and the log grew by exactly their requests, in that order
pub open spec fn requested_in_order(ks: Seq<Url>, m: vstd::map::Map<Url, PendingDynamicBranch>, log0: Seq<LoadRequest>, log1: Seq<LoadRequest>) -> bool {
    &&& ks.no_duplicates() && ks.len() == m.dom().len() // [every_queued_dynamic_branch_exactly_once]
    &&& forall|i: int| 0 <= i < ks.len() ==> m.contains_key(#[trigger] ks[i])
    &&& log1 == log0 + Seq::new(ks.len(), |i: int| branch_request(ks[i], m[ks[i]])) // [nothing_but_the_queued_branches_is_requested]
}
/// the dynamic pass: every queued branch is requested exactly once (in SOME order: the queue is a hash map), as a
/// dynamic load, with the referrer recorded for it; nothing else is requested
pub open spec fn dynamic_pass_post(m: vstd::map::Map<Url, PendingDynamicBranch>, log0: Seq<LoadRequest>, log1: Seq<LoadRequest>) -> bool {
    exists|ks: Seq<Url>| #[trigger] requested_in_order(ks, m, log0, log1)
}
/// the requests a configured import causes: the resolved type target of each of its entries, in order
pub open spec fn type_reqs(vals: Seq<Dependency>, n: int, in_dyn: bool) -> Seq<LoadRequest>
    decreases n
{
    if n <= 0 { Seq::empty() } else {
        let rest = type_reqs(vals, n - 1, in_dyn);
        match vals[n - 1].maybe_type {
            Resolution::Ok(r) => rest.push(LoadRequest { specifier: r.specifier, referrer: Some(r.range), in_dynamic_branch: in_dyn }),
            _ => rest,
        }
    }
}
/// a configured import was handled: its resolved type targets were requested (in order, each with its own range as
/// referrer, nothing else), and the import is recorded under its referrer
pub open spec fn import_handled(log0: Seq<LoadRequest>, log1: Seq<LoadRequest>, gi: GraphImport, in_dyn: bool, referrer: Url, imports: IndexMap<Url, GraphImport>) -> bool {
    &&& log1 == log0 + type_reqs(im_vals(gi.dependencies), im_vals(gi.dependencies).len() as int, in_dyn) // [type_targets_of_a_configured_import_are_requested]
    &&& exists|i: int| 0 <= i < im_keys(imports).len() && #[trigger] im_keys(imports)[i] == referrer && im_vals(imports)[i] == gi // [configured_import_recorded_under_its_referrer]
}
pub open spec fn root_request(u: Url, in_dyn: bool) -> LoadRequest { LoadRequest { specifier: u, referrer: None, in_dynamic_branch: in_dyn } }
/// the entry of a build: exactly the provided roots that are not roots of the graph yet are requested (in the order
/// given, without a referrer), and every provided root is a root of the graph afterwards
pub open spec fn roots_requested(provided: Seq<Url>, old_roots: Seq<Url>, new_roots: Seq<Url>, fresh: Seq<Url>, log0: Seq<LoadRequest>, log1: Seq<LoadRequest>, in_dyn: bool) -> bool {
    &&& log1 == log0 + Seq::new(fresh.len(), |i: int| root_request(fresh[i], in_dyn)) // [each_new_root_is_requested_once_per_mention_without_a_referrer]
    &&& forall|i: int| 0 <= i < fresh.len() ==> provided.contains(#[trigger] fresh[i]) && !old_roots.contains(fresh[i]) // [roots_the_graph_already_has_are_not_requested_again]
    &&& forall|i: int| 0 <= i < provided.len() ==> old_roots.contains(#[trigger] provided[i]) || fresh.contains(provided[i]) // [no_provided_root_is_forgotten]
    &&& forall|i: int| 0 <= i < provided.len() ==> new_roots.contains(#[trigger] provided[i]) // [provided_roots_become_roots_of_the_graph]
    &&& old_roots.is_prefix_of(new_roots)
}
} // verus!
