// C01: "the graph contains exactly the modules reachable ... by following the dependencies that the graph kind and build
// options say to follow" — at Builder::visit_module_dependencies, the step that turns a module's recorded dependencies
// into load requests.  C07: "records for every registry package the `jsr:` and `npm:` requirements its modules import".
verus! {
pub open spec fn gk_code(gk: GraphKind) -> bool { gk == GraphKind::All || gk == GraphKind::CodeOnly }
pub open spec fn gk_types(gk: GraphKind) -> bool { gk == GraphKind::All || gk == GraphKind::TypesOnly }
/// the code target is followed when the graph has code, or when the import has no type target of its own
pub open spec fn follows_code(gk: GraphKind, d: Dependency) -> bool { gk_code(gk) || d.maybe_type is None }
pub open spec fn edge_of(r: Resolution) -> Option<(Url, Range)> {
    match r { Resolution::Ok(x) => Some((x.specifier, x.range)), _ => None }
}
/// the edges of a dependency this graph follows: code first, then type
pub open spec fn code_edge(gk: GraphKind, d: Dependency) -> Option<(Url, Range)> { if follows_code(gk, d) { edge_of(d.maybe_code) } else { None } }
pub open spec fn type_edge(gk: GraphKind, d: Dependency) -> Option<(Url, Range)> { if gk_types(gk) { edge_of(d.maybe_type) } else { None } }
pub open spec fn push_req(log: Seq<LoadRequest>, e: Option<(Url, Range)>, in_dyn: bool) -> Seq<LoadRequest> {
    match e { Some((u, r)) => log.push(LoadRequest { specifier: u, referrer: Some(r), in_dynamic_branch: in_dyn }), None => log }
}
pub open spec fn is_jsr_or_npm(s: Url) -> bool { url_scheme(s) == "jsr"@ || url_scheme(s) == "npm"@ }
/// a dynamically imported jsr:/npm: requirement is attributed to the importer when the branch is queued
pub open spec fn push_mark(m: Seq<(Url, Option<Range>)>, e: Option<(Url, Range)>) -> Seq<(Url, Option<Range>)> {
    match e { Some((u, r)) => if is_jsr_or_npm(u) && load_kind(u, Some(r)) is Ok { m.push((u, Some(r))) } else { m }, None => m }
}
pub open spec fn queued(dynq: vstd::map::Map<Url, PendingDynamicBranch>, e: Option<(Url, Range)>) -> bool {
    match e { Some((u, r)) => dynq.contains_key(u), None => true }
}
pub open spec fn edge_keys(e: Option<(Url, Range)>) -> Set<Url> { match e { Some((u, r)) => set![u], None => Set::empty() } }
/// what visiting one recorded dependency must do
pub open spec fn dep_followed(gk: GraphKind, in_dyn: bool, d0: Dependency, d1: Dependency, log0: Seq<LoadRequest>, log1: Seq<LoadRequest>,
    dyn0: vstd::map::Map<Url, PendingDynamicBranch>, dyn1: vstd::map::Map<Url, PendingDynamicBranch>, m0: Seq<(Url, Option<Range>)>, m1: Seq<(Url, Option<Range>)>) -> bool {
    let ce = code_edge(gk, d0);
    let te = type_edge(gk, d0);
    &&& d1.maybe_code == (if follows_code(gk, d0) { d0.maybe_code } else { Resolution::None }) // [code_target_kept_iff_followed]
    &&& d1.maybe_type == (if gk_types(gk) { d0.maybe_type } else { Resolution::None }) // [type_target_kept_iff_the_graph_has_types]
    &&& d1.is_dynamic == d0.is_dynamic && d1.imports == d0.imports && d1.maybe_attribute_type == d0.maybe_attribute_type
            && d1.maybe_deno_types_specifier == d0.maybe_deno_types_specifier
    &&& if d0.is_dynamic && !in_dyn {
            &&& log1 == log0 // [dynamic_imports_are_not_loaded_in_the_static_pass]
            &&& queued(dyn1, ce) && queued(dyn1, te) && dyn1.dom() =~= dyn0.dom() + edge_keys(ce) + edge_keys(te) // [dynamic_edges_are_queued_for_the_dynamic_pass]
            &&& m1 == push_mark(push_mark(m0, ce), te) // [dynamically_imported_requirement_attributed_to_the_importer]
        } else {
            &&& log1 == push_req(push_req(log0, ce, in_dyn), te, in_dyn) // [followed_edges_are_requested_with_their_referrer_and_nothing_else]
            &&& dyn1 == dyn0 && m1 == m0
        }
}
/// the load requests one recorded dependency causes in this pass: none when dynamic imports are skipped, none (now)
/// for a dynamic import met outside a dynamic branch, otherwise its followed targets, code first
pub open spec fn dep_requests(gk: GraphKind, in_dyn: bool, skip: bool, d: Dependency) -> Seq<LoadRequest> {
    if d.is_dynamic && skip { Seq::empty() }
    else if d.is_dynamic && !in_dyn { Seq::empty() }
    else { push_req(push_req(Seq::empty(), code_edge(gk, d), in_dyn), type_edge(gk, d), in_dyn) }
}
pub open spec fn reqs_upto(gk: GraphKind, in_dyn: bool, skip: bool, vals: Seq<Dependency>, n: int) -> Seq<LoadRequest>
    decreases n
{
    if n <= 0 { Seq::empty() } else { reqs_upto(gk, in_dyn, skip, vals, n - 1) + dep_requests(gk, in_dyn, skip, vals[n - 1]) }
}
} // verus!
