// C07: "... records for every registry package the `jsr:` and `npm:` requirements its modules import"
verus! {
/// the package table after a module at `referrer` (inside registry package url_to_nv(referrer), if any) imported `dep`
pub open spec fn dep_marked(nvo: Option<PackageNv>, dep: JsrDepPackageReq, t0: PackageSpecifiers, t1: PackageSpecifiers) -> bool {
    match nvo {
        Some(nv) => {
            &&& t1.packages@.dom() == t0.packages@.dom()
            &&& t1.packages@[nv].found_dependencies@ == t0.packages@[nv].found_dependencies@.insert(dep) // [requirement_attributed_to_the_importing_package]
            &&& t1.packages@[nv].exports@ == t0.packages@[nv].exports@
            &&& forall|k: PackageNv| k != nv && #[trigger] t0.packages@.contains_key(k) ==> t1.packages@[k] == t0.packages@[k]
            &&& others_unchanged_by_name(t0, t1) && t1.top_level_packages@ == t0.top_level_packages@ && t1.used_yanked_packages@ == t0.used_yanked_packages@
        },
        None => t1 == t0, // [imports_from_outside_the_registry_are_not_attributed]
    }
}
} // verus!
