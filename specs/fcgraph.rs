// C12 at the graph: what ModuleGraph::build_fast_check_type_graph stores into the modules' `fast_check` slots
verus! {
pub type FcResult = Result<fast_check::FastCheckModule, Vec<FastCheckDiagnostic>>;
/// the slot stored for one reported result: the emitted module with the dependencies its own module info
/// declares, or the diagnostics
pub open spec fn fc_slot_for(m: JsModule, res: FcResult) -> FastCheckTypeModuleSlot {
    match res {
        Ok(fm) => FastCheckTypeModuleSlot::Module(Box::new(FastCheckTypeModule {
            dependencies: fc_deps(m.media_type, fm.module_info.dependencies@, m.specifier),
            source: fm.text,
            source_map: fm.source_map,
            dts: fm.dts,
        })),
        Err(d) => FastCheckTypeModuleSlot::Error(d),
    }
}
/// storing one result into a slot: only JavaScript/TypeScript modules carry fast-check data
pub open spec fn fc_store(slot: ModuleSlot, res: FcResult) -> ModuleSlot {
    match slot {
        ModuleSlot::Module(Module::Js(m)) => ModuleSlot::Module(Module::Js(JsModule { fast_check: Some(fc_slot_for(m, res)), ..m })),
        other => other,
    }
}
/// the slot of `s` after the first `n` reported results were stored, in order (a later result for the same
/// specifier replaces an earlier one)
pub open spec fn fc_applied(ms: Seq<(Url, FcResult)>, n: int, s: Url, slot: ModuleSlot) -> ModuleSlot
    decreases n,
{
    if n <= 0 { slot } else {
        let prev = fc_applied(ms, n - 1, s, slot);
        if ms[n - 1].0 == s { fc_store(prev, ms[n - 1].1) } else { prev }
    }
}
pub open spec fn fc_graph_inv(g0: ModuleGraph, ms: Seq<(Url, FcResult)>, n: int, g: ModuleGraph) -> bool {
    &&& g.module_slots@.dom() == g0.module_slots@.dom()
    &&& forall|s: Url| #[trigger] g.module_slots@.contains_key(s) ==> g.module_slots@[s] == fc_applied(ms, n, s, g0.module_slots@[s])
    &&& g.graph_kind == g0.graph_kind && g.roots == g0.roots && g.imports == g0.imports && g.redirects == g0.redirects
          && g.has_node_specifier == g0.has_node_specifier && g.packages == g0.packages && g.npm_dep_graph_result == g0.npm_dep_graph_result
}
pub proof fn lemma_fc_step(g0: ModuleGraph, ms: Seq<(Url, FcResult)>, n: int, ga: ModuleGraph, gb: ModuleGraph)
    requires
        0 <= n < ms.len(), fc_graph_inv(g0, ms, n, ga), ga.module_slots@.contains_key(ms[n].0),
        gb.module_slots@ == ga.module_slots@.insert(ms[n].0, fc_store(ga.module_slots@[ms[n].0], ms[n].1)),
        gb.graph_kind == ga.graph_kind && gb.roots == ga.roots && gb.imports == ga.imports && gb.redirects == ga.redirects
          && gb.has_node_specifier == ga.has_node_specifier && gb.packages == ga.packages && gb.npm_dep_graph_result == ga.npm_dep_graph_result,
    ensures fc_graph_inv(g0, ms, n + 1, gb),
{
    assert(gb.module_slots@.dom() =~= g0.module_slots@.dom());
}
/// a reported result for something that is not a JavaScript/TypeScript module changes nothing
pub proof fn lemma_fc_skip(g0: ModuleGraph, ms: Seq<(Url, FcResult)>, n: int, ga: ModuleGraph, gb: ModuleGraph)
    requires
        0 <= n < ms.len(), fc_graph_inv(g0, ms, n, ga), ga.module_slots@.contains_key(ms[n].0),
        !(ga.module_slots@[ms[n].0] is Module && ga.module_slots@[ms[n].0]->Module_0 is Js),
        gb.module_slots@ == ga.module_slots@,
        gb.graph_kind == ga.graph_kind && gb.roots == ga.roots && gb.imports == ga.imports && gb.redirects == ga.redirects
          && gb.has_node_specifier == ga.has_node_specifier && gb.packages == ga.packages && gb.npm_dep_graph_result == ga.npm_dep_graph_result,
    ensures fc_graph_inv(g0, ms, n + 1, gb),
{
}
/// what the call leaves in the graph
pub open spec fn fcg_post(g0: ModuleGraph, dts: bool, ws: Option<Seq<WorkspaceMember>>, g1: ModuleGraph) -> bool {
    if !inc_types(g0.graph_kind) { g1 == g0 }
    else {
        let ms = fc_modules(g0, dts, match ws { Some(w) => w, None => Seq::empty() }, ws is None);
        g1 == g0 || fc_graph_inv(g0, ms, ms.len() as int, g1)
    }
}
} // verus!
