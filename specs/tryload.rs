// C05 / C03 at the loading step (the nested `try_load` of Builder::load_pending_module)
verus! {
pub open spec fn opt_range_val(o: Option<&Range>) -> Option<Range> { match o { Some(x) => Some(*x), None => None } }
/// (names the checksum that was presented, as a witness for the existential clauses)
pub open spec fn presented(ck: Option<LoaderChecksum>) -> bool { true }
pub open spec fn lopts(dynb: bool, dynroot: bool, cs: CacheSetting, ck: Option<LoaderChecksum>) -> LoadOptions {
    LoadOptions { in_dynamic_branch: dynb, was_dynamic_root: dynroot, cache_setting: cs, maybe_checksum: ck }
}
/// C05 "whenever an expected checksum for a resource is known ...": the checksum that has to be presented for this
/// load — the one derived from the registry version manifest when the URL lies inside a package whose manifest was
/// just loaded, otherwise the one the caller knows (lockfile / earlier manifest)
pub open spec fn effective_checksum<P: JsrUrlProvider + ?Sized>(given: Option<LoaderChecksum>, vload: Option<(PackageNv, PendingResult<PendingJsrPackageVersionInfoLoadItem>)>,
                                    provider: &P, ls: Url, ck: Option<LoaderChecksum>) -> bool {
    match vload {
        None => ck == given,
        Some((nv, Ok(item))) => {
            let info = JsrPackageVersionInfoExt { base_url: provider.package_url_spec(nv), inner: item.info };
            match subpath_spec(info, ls) {
                Some(p) => manifest_checksum_spec(info, p) is Ok && ck is Some && ck.unwrap().0@ == manifest_checksum_spec(info, p)->Ok_0,
                None => ck == given,
            }
        },
        Some((nv, Err(_))) => false,
    }
}
/// the version manifest (when one had to be loaded for this URL) was loaded and names a usable checksum
pub open spec fn manifest_ok<P: JsrUrlProvider + ?Sized>(vload: Option<(PackageNv, PendingResult<PendingJsrPackageVersionInfoLoadItem>)>, provider: &P, ls: Url) -> bool {
    match vload {
        None => true,
        Some((nv, Ok(item))) => {
            let info = JsrPackageVersionInfoExt { base_url: provider.package_url_spec(nv), inner: item.info };
            match subpath_spec(info, ls) { Some(p) => manifest_checksum_spec(info, p) is Ok, None => true }
        },
        Some((nv, Err(_))) => false,
    }
}
pub open spec fn use_or_reload(cs: CacheSetting) -> bool { cs == CacheSetting::Use || cs == CacheSetting::Reload }
/// C05: whatever is admitted was answered by the loader to a request that presented the effective checksum; a
/// redirect is only followed when no checksum is known and the URL is not inside a registry package
pub open spec fn admitted_with_checksum<L: Loader + ?Sized>(loader: &L, ls: Url, dynb: bool, dynroot: bool, ck: Option<LoaderChecksum>, is_asset: bool,
                                                           in_package: bool, redirect_count: usize, resp: PendingInfoResponse) -> bool {
    match resp {
        PendingInfoResponse::Module { specifier, module_source_and_info, pending_load, is_root } =>
            !is_asset && exists|cs: CacheSetting| use_or_reload(cs) && match #[trigger] loader.load_spec(ls, lopts(dynb, dynroot, cs, ck)) {
                Ok(Some(LoadResponse::Module { content, mtime, specifier: s2, maybe_headers })) =>
                    s2 == specifier && parsed_post(s2, maybe_headers, content, mtime, Ok(module_source_and_info))
                      && (cs == CacheSetting::Reload ==> !in_package), // [module_content_was_loaded_with_the_known_checksum]
                _ => false,
            },
        PendingInfoResponse::External { specifier, is_root, is_asset: a } =>
            if is_asset {
                specifier == ls && exists|cs: CacheSetting| use_or_reload(cs) && #[trigger] loader.ensure_cached_spec(ls, lopts(dynb, dynroot, cs, ck)) == Ok::<Option<CacheResponse>, LoadError>(Some(CacheResponse::Cached))
            } else {
                loader.load_spec(ls, lopts(dynb, dynroot, CacheSetting::Use, ck)) == Ok::<Option<LoadResponse>, LoadError>(Some(LoadResponse::External { specifier }))
            },
        PendingInfoResponse::Redirect { count, specifier, maybe_attribute_type, is_asset: a, is_dynamic, is_root } =>
            ck is None && !in_package && redirect_count < loader.max_redirects_spec() && count == redirect_count + 1 // [checksummed_or_in_package_urls_never_redirect]
              && specifier != ls, // [a_redirect_to_the_requested_url_itself_is_never_followed]
    }
}
/// C03: "each failure becomes an error entry for the affected specifier carrying its referrer" — the loader
/// outcomes that fail before any content is parsed
pub open spec fn failure_is_attributed<L: Loader + ?Sized>(loader: &L, ls: Url, dynb: bool, dynroot: bool, ck: Option<LoaderChecksum>, is_asset: bool, in_package: bool,
                                                          referrer: Option<Range>, r: Result<PendingInfoResponse, ModuleError>) -> bool {
    let first = loader.load_spec(ls, lopts(dynb, dynroot, CacheSetting::Use, ck));
    &&& (!is_asset && first == Ok::<Option<LoadResponse>, LoadError>(None) ==> r is Err && *r->Err_0.0 == (ModuleErrorKind::Missing { specifier: ls, maybe_referrer: referrer })) // [absent_module_is_missing_with_referrer]
    &&& (!is_asset && first is Err && first->Err_0 is Other ==> r is Err && *r->Err_0.0 == (ModuleErrorKind::Load { specifier: ls, maybe_referrer: referrer, err: ModuleLoadError::Loader(std::sync::Arc::new(first->Err_0)) })) // [loader_error_is_load_error_with_referrer]
    &&& (!is_asset && first is Err && first->Err_0 is ChecksumIntegrity && in_package ==> r is Err && *r->Err_0.0 == (ModuleErrorKind::Load { specifier: ls, maybe_referrer: referrer,
            err: ModuleLoadError::Jsr(JsrLoadError::ContentChecksumIntegrity(first->Err_0->ChecksumIntegrity_0)) })) // [registry_content_mismatch_is_an_integrity_error_without_retry]
}
} // verus!
