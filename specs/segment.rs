// Specification of ModuleGraph::segment, written from the statement of C18.
verus! {
/// the walk that collects a segment: every edge the graph kind includes, dynamic edges followed, JS checked,
/// and no module passed over (a types-only graph is walked like an `All` graph: the same edges, but the code
/// modules a types-only walk substitutes by their types dependency are kept — C18 requires the segment to
/// be self-contained; walking it as types-only was defect F4)
pub open spec fn seg_kind(k: GraphKind) -> GraphKind { if k == GraphKind::TypesOnly { GraphKind::All } else { k } }
pub open spec fn seg_wopts<'o>(g: ModuleGraph) -> WalkOptions<'o> {
    WalkOptions { follow_dynamic: true, kind: seg_kind(g.graph_kind), check_js: CheckJsOption::True, prefer_fast_check_graph: false }
}
pub open spec fn seg_opts<'o>(g: ModuleGraph) -> WOpts<'o> { wopts(seg_wopts(g)) }

/// `r` holds, for exactly the specifiers in `y`, the original's own slot or redirect
pub open spec fn seg_content(g: ModuleGraph, y: spec_fn(Url) -> bool, r: ModuleGraph) -> bool {
    &&& forall|s: Url| #[trigger] r.module_slots@.contains_key(s) <==> (y(s) && (entry_of(g, s) is Module || entry_of(g, s) is Err))
    &&& forall|s: Url| #[trigger] r.module_slots@.contains_key(s) ==> slot_at(g, s) == Some(r.module_slots@[s])
    &&& forall|s: Url| #[trigger] r.redirects@.contains_key(s) <==> (y(s) && entry_of(g, s) is Redirect)
    &&& forall|s: Url| #[trigger] r.redirects@.contains_key(s) ==> redirect_of(g, s) == Some(r.redirects@[s])
}
pub open spec fn seg_reached(g: ModuleGraph, roots: Seq<Url>) -> spec_fn(Url) -> bool {
    |s: Url| reach(g, seg_opts(g), refs_of(roots), s) && yields(g, seg_opts(g), s)
}
/// C18, first sentence at the level of contents: the segment is the original itself when every given root
/// is a root of the original; otherwise it holds exactly the entries the walk from the given roots yields,
/// each identical to the original's, plus the original's configured imports and package table
pub open spec fn all_roots_known(g: ModuleGraph, roots: Seq<Url>) -> bool {
    forall|i: int| 0 <= i < roots.len() ==> is_seq(g.roots).contains(#[trigger] roots[i])
}
pub open spec fn segment_post(g: ModuleGraph, roots: Seq<Url>, r: ModuleGraph) -> bool {
    if all_roots_known(g, roots) {
        r == g
    } else {
        &&& seg_content(g, seg_reached(g, roots), r)
        &&& r.graph_kind == g.graph_kind && r.imports == g.imports && r.packages == g.packages && r.has_node_specifier == g.has_node_specifier
        &&& forall|u: Url| is_seq(r.roots).contains(u) <==> roots.contains(u)
    }
}

pub proof fn lemma_all_known(g: ModuleGraph, roots0: Seq<Url>, rs: Seq<&Url>, all: bool)
    requires
        same_root_set(rs, refs_of(roots0)),
        all ==> forall|i: int| 0 <= i < rs.len() ==> is_seq(g.roots).contains(*(#[trigger] rs[i])),
        !all ==> exists|i: int| 0 <= i < rs.len() && !is_seq(g.roots).contains(*(#[trigger] rs[i])),
    ensures all == all_roots_known(g, roots0),
{
    if all {
        assert forall|k: int| 0 <= k < roots0.len() implies is_seq(g.roots).contains(#[trigger] roots0[k]) by {
            assert(*refs_of(roots0)[k] == roots0[k]);
            assert(in_roots(refs_of(roots0), roots0[k]));
            assert(in_roots(rs, roots0[k]));
            let i = choose|i: int| 0 <= i < rs.len() && *(#[trigger] rs[i]) == roots0[k];
        }
    } else {
        let i = choose|i: int| 0 <= i < rs.len() && !is_seq(g.roots).contains(*(#[trigger] rs[i]));
        assert(in_roots(rs, *rs[i]));
        assert(in_roots(refs_of(roots0), *rs[i]));
        let j = choose|j: int| 0 <= j < refs_of(roots0).len() && *(#[trigger] refs_of(roots0)[j]) == *rs[i];
        assert(roots0[j] == *rs[i]);
    }
}
pub proof fn lemma_roots_owned(roots0: Seq<Url>, rs: Seq<&Url>, m: Seq<Url>, owned: Seq<Url>)
    requires
        same_root_set(rs, refs_of(roots0)),
        m.len() == rs.len(),
        forall|i: int| 0 <= i < m.len() ==> #[trigger] m[i] == *rs[i],
        forall|u: Url| #[trigger] owned.contains(u) <==> m.contains(u),
    ensures forall|u: Url| owned.contains(u) <==> roots0.contains(u),
{
    assert forall|u: Url| #[trigger] owned.contains(u) ==> in_roots(rs, u) by {
        if owned.contains(u) {
            let j = choose|j: int| 0 <= j < m.len() && m[j] == u;
            assert(*rs[j] == u);
        }
    }
    assert forall|i: int| 0 <= i < rs.len() implies owned.contains(*(#[trigger] rs[i])) by {
        assert(m[i] == *rs[i]);
        assert(m.contains(m[i]));
    }
    assert forall|u: Url| owned.contains(u) <==> roots0.contains(u) by {
        if owned.contains(u) {
            assert(in_roots(refs_of(roots0), u));
            let j = choose|j: int| 0 <= j < refs_of(roots0).len() && *(#[trigger] refs_of(roots0)[j]) == u;
            assert(roots0[j] == u);
        }
        if roots0.contains(u) {
            let j = choose|j: int| 0 <= j < roots0.len() && roots0[j] == u;
            assert(*refs_of(roots0)[j] == u);
            assert(in_roots(refs_of(roots0), u));
            assert(in_roots(rs, u));
            let i = choose|i: int| 0 <= i < rs.len() && *(#[trigger] rs[i]) == u;
        }
    }
}
pub proof fn lemma_reach_same_roots(g: ModuleGraph, o: WOpts, a: Seq<&Url>, b: Seq<&Url>, t: Url)
    requires same_root_set(a, b), reach(g, o, a, t),
    ensures reach(g, o, b, t),
{
    let p = choose|p: Seq<Url>| is_path(g, o, a, p) && #[trigger] p.last() == t;
    assert(is_start(g, o, a, p[0]));
    if in_roots(a, p[0]) { assert(in_roots(b, p[0])); }
    assert(is_start(g, o, b, p[0]));
    assert(is_path(g, o, b, p));
}

/// loop invariant of `segment`: the chain so far is a trace of the walk, nothing has answered None yet, and the
/// new graph holds exactly what was returned so far
pub open spec fn seg_inv(g: ModuleGraph, rs: Seq<&Url>, sts: Seq<ModuleEntryIterator>, rss: Seq<Option<(&Url, ModuleEntryRef)>>, cur: ModuleEntryIterator, r: ModuleGraph) -> bool {
    let tr = WalkTrace { states: sts, results: rss };
    &&& is_trace(g, seg_wopts(g), rs, tr) && sts.last() == cur && wf(cur)
    &&& forall|i: int| 0 <= i < rss.len() ==> (#[trigger] rss[i]) is Some
    &&& seg_content(g, |s: Url| returned_before(tr, rss.len() as int, s), r)
}
pub proof fn lemma_seg_init(g: ModuleGraph, rs: Seq<&Url>, it: ModuleEntryIterator, r: ModuleGraph)
    requires init_state(g, seg_wopts(g), rs, it), wf(it), r.module_slots@ == vstd::map::Map::<Url, ModuleSlot>::empty(), r.redirects@ == vstd::map::Map::<Url, Url>::empty(),
    ensures seg_inv(g, rs, seq![it], Seq::empty(), it, r),
{
    let tr = WalkTrace { states: seq![it], results: Seq::<Option<(&Url, ModuleEntryRef)>>::empty() };
    assert(tr.states[0] == it);
    assert forall|s: Url| !returned_before(tr, 0, s) by { }
}
/// one iteration: the walk returned `(s, e)` and the new graph received the matching slot or redirect
pub open spec fn seg_added(r0: ModuleGraph, r1: ModuleGraph, s: Url, e: ModuleEntryRef) -> bool {
    match e {
        ModuleEntryRef::Module(m) => r1.module_slots@ == r0.module_slots@.insert(s, ModuleSlot::Module(*m)) && r1.redirects@ == r0.redirects@,
        ModuleEntryRef::Err(x) => r1.module_slots@ == r0.module_slots@.insert(s, ModuleSlot::Err(*x)) && r1.redirects@ == r0.redirects@,
        ModuleEntryRef::Redirect(t) => r1.redirects@ == r0.redirects@.insert(s, *t) && r1.module_slots@ == r0.module_slots@,
    }
}
pub proof fn lemma_seg_step(g: ModuleGraph, rs: Seq<&Url>, sts: Seq<ModuleEntryIterator>, rss: Seq<Option<(&Url, ModuleEntryRef)>>, cur: ModuleEntryIterator,
                            nxt: ModuleEntryIterator, s: &Url, e: ModuleEntryRef, r0: ModuleGraph, r1: ModuleGraph)
    requires
        seg_inv(g, rs, sts, rss, cur, r0),
        next_rel(cur, nxt, Some((s, e))), wf(nxt),
        seg_added(r0, r1, *s, e),
    ensures
        seg_inv(g, rs, sts.push(nxt), rss.push(Some((s, e))), nxt, r1),
{
    hide(next_rel); hide(wf); hide(init_state); hide(reach); hide(yields);
    let tr0 = WalkTrace { states: sts, results: rss };
    let st2 = sts.push(nxt);
    let rs2 = rss.push(Some((s, e)));
    let tr = WalkTrace { states: st2, results: rs2 };
    let w = seg_wopts(g);
    assert(is_trace(g, w, rs, tr)) by {
        assert(st2[0] == sts[0]);
        assert forall|i: int| 0 <= i < rs2.len() implies next_rel(#[trigger] st2[i], st2[i + 1], rs2[i]) && wf(st2[i + 1]) by {
            if i < rss.len() { assert(st2[i] == sts[i] && st2[i + 1] == sts[i + 1] && rs2[i] == rss[i]); }
            else { assert(st2[i] == sts.last() && st2[i + 1] == nxt); }
        }
    }
    let k = rss.len() as int;
    assert(rs2[k] == Some((s, e)));
    theorem_yields_only_reachable(g, w, rs, tr, k);
    assert(entry_val(e) == entry_of(g, *s));
    assert forall|x: Url| returned_before(tr, k + 1, x) <==> (returned_before(tr0, k, x) || x == *s) by {
        if returned_before(tr, k + 1, x) {
            let i = choose|i: int| 0 <= i < k + 1 && i < tr.results.len() && (#[trigger] tr.results[i]) is Some && *tr.results[i].unwrap().0 == x;
            if i < k { assert(tr0.results[i] == tr.results[i]); }
        }
        if returned_before(tr0, k, x) {
            let i = choose|i: int| 0 <= i < k && i < tr0.results.len() && (#[trigger] tr0.results[i]) is Some && *tr0.results[i].unwrap().0 == x;
            assert(tr.results[i] == tr0.results[i]);
        }
        if x == *s { assert(tr.results[k] is Some); }
    }
    assert forall|i: int| 0 <= i < rs2.len() implies (#[trigger] rs2[i]) is Some by {
        if i < rss.len() { assert(rs2[i] == rss[i]); }
    }
    let y0 = |x: Url| returned_before(tr0, k, x);
    let y1 = |x: Url| returned_before(tr, rs2.len() as int, x);
    assert(forall|x: Url| #[trigger] y1(x) <==> (y0(x) || x == *s));
    match entry_of(g, *s) {
        EntryV::Module(m) => { assert(slot_at(g, *s) == Some(ModuleSlot::Module(m))); },
        EntryV::Err(x) => { assert(slot_at(g, *s) == Some(ModuleSlot::Err(x))); },
        EntryV::Redirect(t) => { assert(redirect_of(g, *s) == Some(t)); },
        EntryV::Nothing => { },
    }
}
pub proof fn lemma_seg_finish(g: ModuleGraph, roots: Seq<Url>, rs: Seq<&Url>, sts: Seq<ModuleEntryIterator>, rss: Seq<Option<(&Url, ModuleEntryRef)>>, cur: ModuleEntryIterator,
                              nxt: ModuleEntryIterator, r: ModuleGraph)
    requires
        seg_inv(g, rs, sts, rss, cur, r),
        next_rel(cur, nxt, None), wf(nxt),
        same_root_set(rs, refs_of(roots)),
    ensures
        seg_content(g, seg_reached(g, roots), r),
{
    hide(next_rel); hide(wf); hide(init_state); hide(reach); hide(yields); hide(entry_of);
    let tr0 = WalkTrace { states: sts, results: rss };
    let st2 = sts.push(nxt);
    let rs2 = rss.push(None);
    let tr = WalkTrace { states: st2, results: rs2 };
    let w = seg_wopts(g);
    let o = seg_opts(g);
    let k = rss.len() as int;
    assert(is_trace(g, w, rs, tr)) by {
        assert(st2[0] == sts[0]);
        assert forall|i: int| 0 <= i < rs2.len() implies next_rel(#[trigger] st2[i], st2[i + 1], rs2[i]) && wf(st2[i + 1]) by {
            if i < rss.len() { assert(st2[i] == sts[i] && st2[i + 1] == sts[i + 1] && rs2[i] == rss[i]); }
            else { assert(st2[i] == sts.last() && st2[i + 1] == nxt); }
        }
    }
    assert(rs2.last() is None);
    assert forall|x: Url| returned_before(tr0, k, x) <==> seg_reached(g, roots)(x) by {
        if returned_before(tr0, k, x) {
            let i = choose|i: int| 0 <= i < k && i < tr0.results.len() && (#[trigger] tr0.results[i]) is Some && *tr0.results[i].unwrap().0 == x;
            assert(tr.results[i] == tr0.results[i]);
            theorem_yields_only_reachable(g, w, rs, tr, i);
            lemma_reach_same_roots(g, o, rs, refs_of(roots), x);
        }
        if seg_reached(g, roots)(x) {
            lemma_reach_same_roots(g, o, refs_of(roots), rs, x);
            theorem_exhaustion_yields_all_reachable(g, w, rs, tr, x);
            let i = choose|i: int| 0 <= i < k + 1 && i < tr.results.len() && (#[trigger] tr.results[i]) is Some && *tr.results[i].unwrap().0 == x;
            assert(i < k);
            assert(tr0.results[i] == tr.results[i]);
        }
    }
}
} // verus!
// ---- C18 over the contract of `segment`: self-containment
verus! {
/// the segment was really cut out (the roots were not all roots of the original)
pub open spec fn seg_cut(g: ModuleGraph, roots: Seq<Url>, r: ModuleGraph) -> bool {
    !all_roots_known(g, roots) && segment_post(g, roots, r)
}
/// nothing is passed over by the segment walk: every specifier that has an entry is yielded
pub proof fn lemma_seg_no_substitution(g: ModuleGraph, x: Url)
    ensures yields(g, seg_opts(g), x) || entry_of(g, x) is Nothing,
{
}
/// hypotheses of the self-containment theorems: the segment was cut out by `segment`, and the original has the
/// builder's shape "a redirected specifier has no slot of its own" (Builder::add_redirect, async builder: assumed)
pub open spec fn seg_hyp(g: ModuleGraph, roots: Seq<Url>, r: ModuleGraph) -> bool {
    seg_cut(g, roots, r) && redirect_sources_have_no_slot(g)
}
pub open spec fn in_seg(g: ModuleGraph, roots: Seq<Url>, x: Url) -> bool { reach(g, seg_opts(g), refs_of(roots), x) }

/// every reachable specifier has the same entry and the same redirect in the segment as in the original
pub proof fn lemma_seg_agree(g: ModuleGraph, roots: Seq<Url>, r: ModuleGraph, x: Url)
    requires seg_hyp(g, roots, r), in_seg(g, roots, x),
    ensures
        entry_of(r, x) == entry_of(g, x), // [segment_entry_identical]
        redirect_of(r, x) == redirect_of(g, x),
        match slot_at(g, x) { Some(ModuleSlot::Pending { .. }) => slot_at(r, x) is None, other => slot_at(r, x) == other },
{
    let y = seg_reached(g, roots);
    lemma_seg_no_substitution(g, x);
    assert(seg_content(g, y, r));
    assert(y(x) <==> yields(g, seg_opts(g), x));
    if g.redirects@.contains_key(x) {
        assert(!g.module_slots@.contains_key(x));
        assert(entry_of(g, x) is Redirect);
        assert(r.redirects@.contains_key(x));
        assert(!r.module_slots@.contains_key(x));
    } else {
        assert(!r.redirects@.contains_key(x)) by { if r.redirects@.contains_key(x) { assert(entry_of(g, x) is Redirect); } }
    }
    match entry_of(g, x) {
        EntryV::Module(m) => { assert(r.module_slots@.contains_key(x)); },
        EntryV::Err(e) => { assert(r.module_slots@.contains_key(x)); },
        EntryV::Redirect(t) => { },
        EntryV::Nothing => {
            assert(!r.module_slots@.contains_key(x));
            assert(!r.redirects@.contains_key(x));
        },
    }
}
/// following redirects from a reachable specifier stays inside the segment and agrees with the original
pub proof fn lemma_seg_rs_from(g: ModuleGraph, roots: Seq<Url>, r: ModuleGraph, cur: Url, seen: Set<&Url>, hops: nat)
    requires seg_hyp(g, roots, r), in_seg(g, roots, cur),
    ensures rs_from(r, cur, seen, hops) == rs_from(g, cur, seen, hops), in_seg(g, roots, rs_from(g, cur, seen, hops)),
    decreases 10 - hops,
{
    lemma_seg_agree(g, roots, r, cur);
    if hops >= 10 { } else {
        match redirect_of(g, cur) {
            None => { },
            Some(t) => {
                if seen.contains(&t) { } else {
                    let o = seg_opts(g);
                    assert(g.redirects@.contains_key(cur));
                    assert(!g.module_slots@.contains_key(cur));
                    assert(entry_of(g, cur) == EntryV::Redirect(t));
                    assert(edge(g, o, cur, t));
                    lemma_reach_edge(g, o, refs_of(roots), cur, t);
                    lemma_seg_rs_from(g, roots, r, t, seen.insert(&t), hops + 1);
                }
            },
        }
    }
}
/// C18: "lookups ... give the same answers for everything reachable from those roots"
pub proof fn theorem_segment_lookups_agree(g: ModuleGraph, roots: Seq<Url>, r: ModuleGraph, x: Url)
    requires seg_hyp(g, roots, r), in_seg(g, roots, x),
    ensures
        resolve_spec(r, x) == resolve_spec(g, x), // [segment_resolves_identically]
        in_seg(g, roots, resolve_spec(g, x)),
        module_at(r, x) == module_at(g, x), // [segment_same_module]
        error_at(r, x) == error_at(g, x), // [segment_same_error]
{
    lemma_seg_rs_from(g, roots, r, x, Set::<&Url>::empty().insert(&x), 0);
    lemma_seg_agree(g, roots, r, resolve_spec(g, x));
}
/// every module the segment contains is the original's module at a reachable specifier
pub proof fn lemma_seg_contained(g: ModuleGraph, roots: Seq<Url>, r: ModuleGraph, s: Url, m: Module)
    requires seg_cut(g, roots, r), r.module_slots@.contains_key(s), r.module_slots@[s] == ModuleSlot::Module(m),
    ensures in_seg(g, roots, s), yields(g, seg_opts(g), s), entry_of(g, s) == EntryV::Module(m),
{
    assert(seg_content(g, seg_reached(g, roots), r));
    assert(seg_reached(g, roots)(s));
    assert(slot_at(g, s) == Some(ModuleSlot::Module(m)));
}
/// C18, first sentence: "every dependency of every contained module resolves exactly as it did in the original —
/// same target, same module or error": the code target, and the type target when the graph kind includes types
pub proof fn theorem_segment_self_contained(g: ModuleGraph, roots: Seq<Url>, r: ModuleGraph, s: Url, m: Module, i: int, t: Url)
    requires
        seg_hyp(g, roots, r),
        r.module_slots@.contains_key(s), r.module_slots@[s] == ModuleSlot::Module(m),
        0 <= i < mod_deps(m).len(), dep_points_to(seg_opts(g), mod_deps(m)[i], t),
    ensures
        in_seg(g, roots, t),
        resolve_spec(r, t) == resolve_spec(g, t), // [dependency_resolves_to_the_same_target]
        module_at(r, t) == module_at(g, t), // [dependency_reaches_the_same_module]
        error_at(r, t) == error_at(g, t), // [dependency_reaches_the_same_error]
{
    let o = seg_opts(g);
    lemma_seg_contained(g, roots, r, s, m);
    assert(walk_deps(o, m) == mod_deps(m));
    assert(dep_followed(o, mod_deps(m)[i]));
    assert(is_dep_target(o, walk_deps(o, m), t));
    assert(expands_to(o, entry_of(g, s), t));
    assert(edge(g, o, s, t));
    lemma_reach_edge(g, o, refs_of(roots), s, t);
    theorem_segment_lookups_agree(g, roots, r, t);
}
/// "... and type-preferring dependency resolution give the same answers": `resolve_dependency`'s target for a
/// dependency of a contained module (for the resolutions the graph kind includes)
pub proof fn theorem_segment_dep_target_agrees(g: ModuleGraph, roots: Seq<Url>, r: ModuleGraph, s: Url, m: Module, i: int, prefer_types: bool)
    requires
        seg_hyp(g, roots, r), inc_types(g.graph_kind),
        r.module_slots@.contains_key(s), r.module_slots@[s] == ModuleSlot::Module(m),
        0 <= i < mod_deps(m).len(),
    ensures
        dep_target(r, mod_deps(m)[i], prefer_types) == dep_target(g, mod_deps(m)[i], prefer_types), // [type_preferring_resolution_agrees]
{
    let o = seg_opts(g);
    let d = mod_deps(m)[i];
    let first = if prefer_types { d.maybe_type } else { d.maybe_code };
    let second = if prefer_types { d.maybe_code } else { d.maybe_type };
    let unresolved = if res_specifier(first) is Some { res_specifier(first) } else { res_specifier(second) };
    match unresolved {
        None => { },
        Some(u) => {
            assert(dep_points_to(o, d, u));
            theorem_segment_self_contained(g, roots, r, s, m, i, u);
            match module_at(g, u) {
                None => { },
                Some(m2) => {
                    if prefer_types && m2 is Js && types_target(m2) is Some {
                        let e = resolve_spec(g, u);
                        let tt = types_target(m2).unwrap();
                        assert(slot_at(g, e) == Some(ModuleSlot::Module(m2)));
                        assert(entry_of(g, e) == EntryV::Module(m2));
                        assert(on_pop(g, o, e, tt));
                        assert(edge(g, o, e, tt));
                        lemma_reach_edge(g, o, refs_of(roots), e, tt);
                        theorem_segment_lookups_agree(g, roots, r, tt);
                    }
                },
            }
        },
    }
}
} // verus!
