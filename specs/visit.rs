// C05, third sentence: "Every newly seen remote non-declaration module ... has the SHA-256 of exactly the bytes used
// ... handed to the lockfile interface, and existing lockfile entries are never overwritten."
verus! {
/// the bytes the loader supplied for a loaded module, when still known
pub open spec fn supplied_bytes(m: ModuleSourceAndInfo) -> Option<std::sync::Arc<[u8]>> {
    match m {
        ModuleSourceAndInfo::Json { source, .. } => original_bytes_of(source),
        ModuleSourceAndInfo::Js { source, .. } => original_bytes_of(source),
        ModuleSourceAndInfo::Wasm { source, .. } => Some(source),
    }
}
pub open spec fn msi_media_type(m: ModuleSourceAndInfo) -> MediaType {
    match m {
        ModuleSourceAndInfo::Json { .. } => MediaType::Json,
        ModuleSourceAndInfo::Js { media_type, .. } => media_type,
        ModuleSourceAndInfo::Wasm { .. } => MediaType::Wasm,
    }
}
pub open spec fn is_decl_mt(m: MediaType) -> bool { m == MediaType::Dts || m == MediaType::Dmts || m == MediaType::Dcts }
/// a module the lockfile should learn about: fully loaded now (not a deferred registry content load), not inside
/// a registry package, not a declaration file, remote
pub open spec fn to_be_recorded(resp: PendingInfoResponse, in_package: bool) -> bool {
    match resp {
        PendingInfoResponse::Module { specifier, module_source_and_info, pending_load, is_root } =>
            pending_load is None && !in_package && !is_decl_mt(msi_media_type(module_source_and_info))
              && (url_scheme(specifier) == "https"@ || url_scheme(specifier) == "http"@),
        _ => false,
    }
}
/// the lockfile's remote table after visiting `resp`
pub open spec fn lock_after(resp: PendingInfoResponse, in_package: bool, before: vstd::map::Map<Url, LoaderChecksum>, after: vstd::map::Map<Url, LoaderChecksum>) -> bool {
    if to_be_recorded(resp, in_package) {
        let spec_ = resp->Module_specifier;
        let msi = resp->Module_module_source_and_info;
        if before.contains_key(spec_) { after == before } // [existing_lockfile_entries_are_never_overwritten]
        else {
            match supplied_bytes(msi) {
                Some(bytes) => after.dom() == before.dom().insert(spec_) && after[spec_].0@ == sha256_hex((*bytes)@)
                    && (forall|u: Url| #[trigger] before.contains_key(u) ==> after[u] == before[u]), // [checksum_is_of_the_bytes_the_loader_supplied]
                None => after == before, // (the supplied bytes are gone after transcoding: nothing is recorded rather than a checksum that cannot match)
            }
        }
    } else { after == before } // [nothing_else_is_recorded]
}
/// C03 "leaves no entry unfinished" at Builder::visit, for an external answer: afterwards the answered specifier has an
/// entry that is not the in-flight marker — the entry it already had when that was settled, else an external module
pub open spec fn external_answer_settled(g0: ModuleGraph, g1: ModuleGraph, resp: PendingInfoResponse) -> bool {
    match resp {
        PendingInfoResponse::External { specifier, is_root, is_asset } => {
            let ext = ModuleSlot::Module(Module::External(ExternalModule { maybe_cache_info: None, specifier, was_asset_load: is_asset }));
            &&& g1.module_slots@.contains_key(specifier)
            &&& g1.module_slots@[specifier] == (if g0.module_slots@.contains_key(specifier) && !(g0.module_slots@[specifier] is Pending) { g0.module_slots@[specifier] } else { ext })
            &&& forall|k: Url| k != specifier ==> (#[trigger] g1.module_slots@.contains_key(k) <==> g0.module_slots@.contains_key(k))
                    && (g0.module_slots@.contains_key(k) ==> g1.module_slots@[k] == g0.module_slots@[k])
        },
        _ => true,
    }
}
} // verus!
