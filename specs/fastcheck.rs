// C12, first sentence: "either every module of its public API gets an emitted module and no entrypoint
// carries diagnostics, or no module of the package gets one and every entrypoint carries the diagnostics"
verus! {
pub type FcEntry = (Url, Result<FastCheckModule, Vec<FastCheckDiagnostic>>);

/// what analysing one module of a package gives: its own diagnostics, else nothing to emit (not an ES module),
/// else the transform's module or diagnostics
pub open spec fn outcome(root: RootSymbol, g: ModuleGraph, o: TransformOptions, s: Url, r: ModulePublicRanges) -> Result<Option<FastCheckModule>, Seq<FastCheckDiagnostic>> {
    if r.diagnostics@.len() > 0 { Err(r.diagnostics@) }
    else {
        match module_of(root, s) {
            None => Ok(None),
            Some(mi) => match esm_of(mi) {
                None => Ok(None),
                Some(e) => match transform_spec(g, e, r.ranges, r.impl_with_overload_ranges, o) {
                    Ok(m) => Ok(Some(m)),
                    Err(d) => Err(d@),
                },
            },
        }
    }
}
pub open spec fn items_of(m: IndexMap<Url, ModulePublicRanges>, items: Seq<(Url, ModulePublicRanges)>) -> bool {
    items.len() == im_keys(m).len() && forall|i: int| 0 <= i < items.len() ==> #[trigger] items[i] == (im_keys(m)[i], im_vals(m)[i])
}
pub open spec fn out_at(root: RootSymbol, g: ModuleGraph, o: TransformOptions, items: Seq<(Url, ModulePublicRanges)>, i: int) -> Result<Option<FastCheckModule>, Seq<FastCheckDiagnostic>> {
    outcome(root, g, o, items[i].0, items[i].1)
}
/// the emitted modules of the first `n` items, in order
pub open spec fn emitted_upto(root: RootSymbol, g: ModuleGraph, o: TransformOptions, items: Seq<(Url, ModulePublicRanges)>, n: int) -> Seq<FcEntry>
    decreases n,
{
    if n <= 0 { Seq::empty() } else {
        let rest = emitted_upto(root, g, o, items, n - 1);
        match out_at(root, g, o, items, n - 1) {
            Ok(Some(m)) => rest.push((items[n - 1].0, Ok(m))),
            _ => rest,
        }
    }
}
pub open spec fn any_err_upto(root: RootSymbol, g: ModuleGraph, o: TransformOptions, items: Seq<(Url, ModulePublicRanges)>, n: int) -> bool {
    exists|i: int| 0 <= i < n && (#[trigger] out_at(root, g, o, items, i)) is Err
}
/// the result of transforming one package's modules
pub open spec fn package_post(root: RootSymbol, g: ModuleGraph, o: TransformOptions, items: Seq<(Url, ModulePublicRanges)>,
                              errors: Seq<FastCheckDiagnostic>, mods: Seq<FcEntry>) -> bool {
    // diagnostics are reported exactly when some module of the package has them
    &&& (errors.len() > 0 <==> any_err_upto(root, g, o, items, items.len() as int))
    // without diagnostics, every module of the package that has something to emit got its emitted module
    &&& (errors.len() == 0 ==> mods == emitted_upto(root, g, o, items, items.len() as int))
    // whatever was collected is an emitted module (never a diagnostic entry)
    &&& forall|j: int| 0 <= j < mods.len() ==> (#[trigger] mods[j]).1 is Ok
}
/// loop invariant of transform_package after `n` items
pub open spec fn tp_inv(root: RootSymbol, g: ModuleGraph, o: TransformOptions, items: Seq<(Url, ModulePublicRanges)>, n: int,
                        errors: Seq<FastCheckDiagnostic>, mods: Seq<FcEntry>) -> bool {
    &&& 0 <= n <= items.len()
    &&& (errors.len() > 0 <==> any_err_upto(root, g, o, items, n))
    &&& (errors.len() == 0 ==> mods == emitted_upto(root, g, o, items, n))
    &&& forall|j: int| 0 <= j < mods.len() ==> (#[trigger] mods[j]).1 is Ok
}
/// one iteration: item `n` had outcome `out`; the code extended `errors` by an Err's diagnostics (non-empty) and
/// pushed an emitted module only while no diagnostics had been seen
pub proof fn lemma_tp_step(root: RootSymbol, g: ModuleGraph, o: TransformOptions, items: Seq<(Url, ModulePublicRanges)>, n: int,
                           e0: Seq<FastCheckDiagnostic>, m0: Seq<FcEntry>, e1: Seq<FastCheckDiagnostic>, m1: Seq<FcEntry>)
    requires
        tp_inv(root, g, o, items, n, e0, m0), n < items.len(),
        match out_at(root, g, o, items, n) {
            // (collecting the module although diagnostics exist already is harmless: the caller discards the modules then)
            Ok(Some(m)) => e1 == e0 && (m1 == m0.push((items[n].0, Ok(m))) || (e0.len() > 0 && m1 == m0)),
            Ok(None) => e1 == e0 && m1 == m0,
            Err(d) => d.len() > 0 && e1 == e0 + d && m1 == m0,
        },
    ensures tp_inv(root, g, o, items, n + 1, e1, m1),
{
    assert forall|i: int| 0 <= i < n + 1 && (#[trigger] out_at(root, g, o, items, i)) is Err implies (i < n && any_err_upto(root, g, o, items, n)) || i == n by { }
    if any_err_upto(root, g, o, items, n) {
        let i = choose|i: int| 0 <= i < n && (#[trigger] out_at(root, g, o, items, i)) is Err;
        assert(any_err_upto(root, g, o, items, n + 1));
    }
    if out_at(root, g, o, items, n) is Err { assert(any_err_upto(root, g, o, items, n + 1)); }
    if any_err_upto(root, g, o, items, n + 1) {
        let i = choose|i: int| 0 <= i < n + 1 && (#[trigger] out_at(root, g, o, items, i)) is Err;
        if i < n { assert(any_err_upto(root, g, o, items, n)); }
    }
}
/// stopping early on the first diagnostic: the package already has diagnostics
pub proof fn lemma_tp_stop(root: RootSymbol, g: ModuleGraph, o: TransformOptions, items: Seq<(Url, ModulePublicRanges)>, n: int,
                           errors: Seq<FastCheckDiagnostic>, mods: Seq<FcEntry>)
    requires tp_inv(root, g, o, items, n, errors, mods), errors.len() > 0,
    ensures package_post(root, g, o, items, errors, mods),
{
    let i = choose|i: int| 0 <= i < n && (#[trigger] out_at(root, g, o, items, i)) is Err;
    assert(any_err_upto(root, g, o, items, items.len() as int));
}
pub proof fn lemma_emitted_all_ok(root: RootSymbol, g: ModuleGraph, o: TransformOptions, items: Seq<(Url, ModulePublicRanges)>, n: int)
    ensures forall|j: int| 0 <= j < emitted_upto(root, g, o, items, n).len() ==> (#[trigger] emitted_upto(root, g, o, items, n)[j]).1 is Ok,
    decreases n,
{
    if n > 0 { lemma_emitted_all_ok(root, g, o, items, n - 1); }
}
} // verus!
verus! {
pub open spec fn concat_upto(parts: Seq<Seq<FcEntry>>, n: int) -> Seq<FcEntry>
    decreases n,
{
    if n <= 0 { Seq::empty() } else { concat_upto(parts, n - 1) + parts[n - 1] }
}
/// every entry point of the package carries exactly the package's diagnostics, and nothing else is listed
pub open spec fn all_entrypoints_err(eps: Set<Url>, errs: Seq<FastCheckDiagnostic>, c: Seq<FcEntry>) -> bool {
    &&& forall|k: int| 0 <= k < c.len() ==> eps.contains((#[trigger] c[k]).0) && c[k].1 is Err && c[k].1->Err_0@ == errs
    &&& forall|ep: Url| eps.contains(ep) ==> exists|k: int| 0 <= k < c.len() && (#[trigger] c[k]).0 == ep
}
/// C12: what one analysed package contributes to the result — cached items as they are; otherwise all-or-nothing
pub open spec fn package_contribution(root: RootSymbol, g: ModuleGraph, o: TransformOptions, p: PackagePublicRanges, c: Seq<FcEntry>) -> bool {
    if p.cache_items@.len() > 0 { c == p.cache_items@ }
    else {
        exists|items: Seq<(Url, ModulePublicRanges)>, errs: Seq<FastCheckDiagnostic>, mods: Seq<FcEntry>|
            #![trigger package_post(root, g, o, items, errs, mods)]
            items_of(p.module_ranges, items) && package_post(root, g, o, items, errs, mods)
            && (if errs.len() == 0 {
                    // every module of the public API that has something to emit got its module; no diagnostics anywhere
                    c == mods
                } else {
                    // no module of the package is emitted; every entry point carries the diagnostics
                    all_entrypoints_err(p.entrypoints@, errs, c)
                })
    }
}
pub open spec fn fc_result_post(root: RootSymbol, g: ModuleGraph, o: TransformOptions, pkgs: Seq<(PackageNv, PackagePublicRanges)>, result: Seq<FcEntry>) -> bool {
    exists|parts: Seq<Seq<FcEntry>>| #![trigger parts.len()] parts.len() == pkgs.len() && result == concat_upto(parts, parts.len() as int)
        && forall|i: int| 0 <= i < pkgs.len() ==> package_contribution(root, g, o, (#[trigger] pkgs[i]).1, parts[i])
}
/// the part of the result one package iteration appended
pub open spec fn err_entries(eps: Seq<Url>, errs: Seq<FastCheckDiagnostic>, c: Seq<FcEntry>, k: int) -> bool {
    c.len() == k && forall|j: int| 0 <= j < k ==> (#[trigger] c[j]).0 == eps[j] && c[j].1 is Err && c[j].1->Err_0@ == errs
}
pub proof fn lemma_entrypoints_done(eps_set: Set<Url>, eps: Seq<Url>, errs: Seq<FastCheckDiagnostic>, c: Seq<FcEntry>)
    requires err_entries(eps, errs, c, eps.len() as int), forall|u: Url| eps.contains(u) <==> eps_set.contains(u),
    ensures all_entrypoints_err(eps_set, errs, c),
{
    assert forall|k: int| 0 <= k < c.len() implies eps_set.contains((#[trigger] c[k]).0) && c[k].1 is Err && c[k].1->Err_0@ == errs by {
        assert(eps.contains(eps[k]));
    }
    assert forall|ep: Url| eps_set.contains(ep) implies exists|k: int| 0 <= k < c.len() && (#[trigger] c[k]).0 == ep by {
        assert(eps.contains(ep));
        let k = choose|k: int| 0 <= k < eps.len() && eps[k] == ep;
        assert(c[k].0 == ep);
    }
}
pub proof fn lemma_concat_push(parts: Seq<Seq<FcEntry>>, c: Seq<FcEntry>)
    ensures concat_upto(parts.push(c), parts.len() as int + 1) == concat_upto(parts, parts.len() as int) + c,
{
    lemma_concat_prefix(parts, c, parts.len() as int);
    assert(parts.push(c)[parts.len() as int] == c);
}
pub proof fn lemma_concat_prefix(parts: Seq<Seq<FcEntry>>, c: Seq<FcEntry>, n: int)
    requires 0 <= n <= parts.len(),
    ensures concat_upto(parts.push(c), n) == concat_upto(parts, n),
    decreases n,
{
    if n > 0 { lemma_concat_prefix(parts, c, n - 1); assert(parts.push(c)[n - 1] == parts[n - 1]); }
}
} // verus!
