// C03 "Builds terminate": the first loop of Builder::resolve_pending_jsr_specifiers re-queues a request (push_front)
// after reloading its package's metadata — at most once per package name.  Measure: the number of queued requests plus
// the number of queued requests whose package has not been reloaded yet.
verus! {
pub open spec fn req_name(i: PendingJsrReqResolutionItem) -> PackageName { jsr_ref_req(i.package_ref).name }
/// how many of the queued requests are for a package that has not been reloaded in this pass
pub open spec fn not_reloaded(q: Seq<PendingJsrReqResolutionItem>, done: Set<PackageName>) -> nat
    decreases q.len()
{
    if q.len() == 0 { 0 } else { (if done.contains(req_name(q[0])) { 0nat } else { 1nat }) + not_reloaded(q.skip(1), done) }
}
pub open spec fn restart_measure(q: Seq<PendingJsrReqResolutionItem>, done: Set<PackageName>) -> nat { q.len() + not_reloaded(q, done) }
/// reloading one more package never increases the count
pub proof fn lemma_not_reloaded_monotone(q: Seq<PendingJsrReqResolutionItem>, done: Set<PackageName>, n: PackageName)
    ensures not_reloaded(q, done.insert(n)) <= not_reloaded(q, done)
    decreases q.len()
{
    if q.len() > 0 { lemma_not_reloaded_monotone(q.skip(1), done, n); }
}
/// popping the front request and pushing it back after reloading its (so far not reloaded) package: the measure drops
pub proof fn lemma_requeue_decreases(q: Seq<PendingJsrReqResolutionItem>, done: Set<PackageName>)
    requires q.len() > 0, !done.contains(req_name(q[0]))
    ensures restart_measure(q, done.insert(req_name(q[0]))) < restart_measure(q, done)
{
    lemma_not_reloaded_monotone(q.skip(1), done, req_name(q[0]));
}
pub proof fn lemma_pop_front(q: Seq<PendingJsrReqResolutionItem>, done: Set<PackageName>)
    requires q.len() > 0
    ensures restart_measure(q.skip(1), done) < restart_measure(q, done)
{
}
} // verus!
