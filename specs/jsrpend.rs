// C07, first sentence: "A `jsr:@scope/name@req/sub/path` specifier becomes a redirect to the registry URL formed from
// the package name, the selected version and the path that version's exports map gives for that export; an export the
// manifest lacks yields an unknown-export error listing the available exports" — and "lists each export used".
// C03: each registry failure "becomes an error entry for the affected specifier carrying its referrer".
verus! {
/// the slot of `requested` holds a load error about `requested`, carrying `referrer` and the given cause
pub open spec fn load_error_stored(g: ModuleGraph, requested: Url, referrer: Option<Range>, cause: ModuleLoadError) -> bool {
    g.module_slots@.contains_key(requested) && match g.module_slots@[requested] {
        ModuleSlot::Err(e) => match *e.0 {
            ModuleErrorKind::Load { specifier, maybe_referrer, err } => specifier == requested && maybe_referrer == referrer && err == cause,
            _ => false,
        },
        _ => false,
    }
}
/// a `jsr:` request for export `sub_path` of the selected `nv`, whose manifest has the exports map `exports`, ended as
/// the property demands: the exports map gives `value` for that export, the request is redirected to
/// package_url(nv).join(value), the package lists the export (and is a top-level package when those are collected);
/// redirects of other specifiers are untouched
pub open spec fn jsr_export_resolved(g0: ModuleGraph, g1: ModuleGraph, requested: Url, nv: PackageNv, exports: JsonValue,
    sub_path: Option<String>, value: &str, target: Url, collect_top: bool) -> bool {
    &&& export_lookup(exports, export_name_of(sub_path), Some(value)) // [path_taken_from_the_exports_map]
    &&& url_join(package_url_of(nv), value@) == Some(target) && url_inside(target, package_url_of(nv)) // [registry_url_formed_from_package_url_and_export_path_inside_the_package]
    &&& g1.redirects@.contains_key(requested) && g1.redirects@[requested] == target // [jsr_specifier_redirected_to_the_registry_url]
    &&& (forall|u: Url| u != requested ==> (#[trigger] g1.redirects@.contains_key(u) <==> g0.redirects@.contains_key(u))
            && (g0.redirects@.contains_key(u) ==> g1.redirects@[u] == g0.redirects@[u])) // [other_redirects_untouched]
    &&& g1.packages.packages@.contains_key(nv)
            && export_listed_as(g1.packages.packages@[nv].exports@, export_name_of(sub_path), value@) // [used_export_listed_for_the_package]
    &&& (collect_top ==> g1.packages.top_level_packages@.contains(nv)) // [top_level_package_recorded]
}
/// the names an unknown-export error lists are the manifest's export names
pub uninterp spec fn manifest_export_names(exports: JsonValue) -> Seq<Seq<char>>;
pub open spec fn texts(v: Seq<String>) -> Seq<Seq<char>> { v.map_values(|s: String| s@) }
/// the request for an export the manifest lacks (or whose path is unusable) ended as an unknown-export error entry
/// for the requested specifier, carrying its referrer, naming the export and the package and listing the exports
pub open spec fn unknown_export_reported(g1: ModuleGraph, requested: Url, referrer: Option<Range>, nv: PackageNv, exports: JsonValue,
    sub_path: Option<String>) -> bool {
    g1.module_slots@.contains_key(requested) && match g1.module_slots@[requested] {
        ModuleSlot::Err(e) => match *e.0 {
            ModuleErrorKind::Load { specifier, maybe_referrer, err: ModuleLoadError::Jsr(JsrLoadError::UnknownExport { export_name, nv: n, exports: listed }) } =>
                specifier == requested && maybe_referrer == referrer && export_name@ == export_name_of(sub_path) && *n == nv
                && texts(listed@) == manifest_export_names(exports),
            _ => false,
        },
        _ => false,
    }
}
/// the export is unusable: the exports map has no string for it, or that string does not join to the package url, or
/// the joined url lies outside the package (an absolute url, or a `jsr:` specifier: defect F17)
pub open spec fn export_unusable(exports: JsonValue, sub_path: Option<String>, nv: PackageNv) -> bool {
    export_lookup(exports, export_name_of(sub_path), None)
    || exists|v: &str| export_lookup(exports, export_name_of(sub_path), Some(v))
          && (url_join(package_url_of(nv), v@) is None || !url_inside(url_join(package_url_of(nv), v@).unwrap(), package_url_of(nv)))
}
/// how a jsr: request whose version has been selected must end, whatever the code does in between (stated once, after
/// the whole `match` on the manifest): manifest load failed -> that error for the specifier; export usable -> redirect
/// and bookkeeping; otherwise -> unknown-export error
pub open spec fn jsr_request_settled(g0: ModuleGraph, g1: ModuleGraph, item: PendingJsrNvResolutionItem, res: PendingResult<PendingJsrPackageVersionInfoLoadItem>, collect_top: bool) -> bool {
    let nv = item.nv_ref.0.nv;
    let sub = item.nv_ref.0.sub_path;
    match res {
        Err(e) => load_error_stored(g1, item.specifier, item.maybe_range, ModuleLoadError::Jsr(e)),
        Ok(li) => (exists|value: &str, target: Url| #[trigger] jsr_export_resolved(g0, g1, item.specifier, nv, li.info.exports, sub, value, target, collect_top))
            || (export_unusable(li.info.exports, sub, nv) && unknown_export_reported(g1, item.specifier, item.maybe_range, nv, li.info.exports, sub)),
    }
}
} // verus!
