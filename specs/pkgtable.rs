// The graph's package table (C07: "maps every such requirement to its selected name@version, lists
// each export used, and records for every registry package the requirements its modules import")
verus! {
pub open spec fn by_name_after_add(old_map: vstd::map::Map<PackageName, Vec<PackageNv>>, name: PackageName, nv: PackageNv, new_vec: Vec<PackageNv>) -> bool {
    let old_seq = if old_map.contains_key(name) { old_map[name]@ } else { Seq::<PackageNv>::empty() };
    new_vec@ == (if old_seq.contains(nv) { old_seq } else { old_seq.push(nv) })
}
/// the export table of a package lists `name -> value`
pub open spec fn export_listed_as(m: vstd::map::Map<String, String>, name: Seq<char>, value: Seq<char>) -> bool {
    exists|k: String| #[trigger] m.contains_key(k) && k@ == name && m[k]@ == value
}
pub open spec fn others_unchanged_by_name(a: PackageSpecifiers, b: PackageSpecifiers) -> bool {
    b.package_reqs@ == a.package_reqs@ && b.packages_by_name@ == a.packages_by_name@
}
} // verus!
verus! {
/// C07: "the path that version's exports map gives for that export": a string `exports` only
/// answers for ".", an object answers with the string stored under the export name, anything
/// else (missing entry, non-string entry, other JSON) answers nothing
pub open spec fn export_lookup(exports: JsonValue, name: Seq<char>, r: Option<&str>) -> bool {
    match exports {
        JsonValue::String(value) => if name == "."@ { r is Some && r.unwrap()@ == value@ } else { r is None },
        JsonValue::Object(map) => match json_map_get(map, name) {
            Some(JsonValue::String(value)) => r is Some && r.unwrap()@ == value@,
            _ => r is None,
        },
        _ => r is None,
    }
}
} // verus!
