// The graph's package table (C07: "maps every such requirement to its selected name@version, lists
// each export used, and records for every registry package the requirements its modules import")
verus! {
pub open spec fn by_name_after_add(old_map: vstd::map::Map<PackageName, Vec<PackageNv>>, name: PackageName, nv: PackageNv, new_vec: Vec<PackageNv>) -> bool {
    let old_seq = if old_map.contains_key(name) { old_map[name]@ } else { Seq::<PackageNv>::empty() };
    new_vec@ == (if old_seq.contains(nv) { old_seq } else { old_seq.push(nv) })
}
pub open spec fn others_unchanged_by_name(a: PackageSpecifiers, b: PackageSpecifiers) -> bool {
    b.package_reqs@ == a.package_reqs@ && b.packages_by_name@ == a.packages_by_name@
}
} // verus!
