// C03: "Each failure becomes an error entry for the affected specifier ..." / "leaves no entry unfinished" at the
// step of the build loop that stores a finished load
verus! {
pub open spec fn kind_specifier(k: ModuleErrorKind) -> Url {
    match k {
        ModuleErrorKind::Load { specifier, .. } => specifier,
        ModuleErrorKind::Parse { specifier, .. } => specifier,
        ModuleErrorKind::WasmParse { specifier, .. } => specifier,
        ModuleErrorKind::UnsupportedMediaType { specifier, .. } => specifier,
        ModuleErrorKind::Missing { specifier, .. } => specifier,
        ModuleErrorKind::MissingDynamic { specifier, .. } => specifier,
        ModuleErrorKind::InvalidTypeAssertion { specifier, .. } => specifier,
        ModuleErrorKind::UnsupportedImportAttributeType { specifier, .. } => specifier,
        ModuleErrorKind::UnsupportedModuleTypeForSourcePhaseImport { specifier, .. } => specifier,
    }
}
/// what storing a failed load must leave in the graph: the error sits under the specifier it is about; when that
/// is not the requested specifier, the redirect is recorded (first one wins) and the requested specifier's pending
/// marker is gone
pub open spec fn error_stored(g0: ModuleGraph, g1: ModuleGraph, requested: Url, err: ModuleError) -> bool {
    let s = kind_specifier(*err.0);
    &&& g1.module_slots@.contains_key(s) && g1.module_slots@[s] == ModuleSlot::Err(err) // [error_stored_under_its_specifier]
    &&& (requested != s ==> g1.redirects@.contains_key(requested)
            && (g0.redirects@.contains_key(requested) ==> g1.redirects@[requested] == g0.redirects@[requested])
            && (!g0.redirects@.contains_key(requested) ==> g1.redirects@[requested] == s)
            && !(g1.module_slots@.contains_key(requested) && g1.module_slots@[requested] is Pending && g0.module_slots@.contains_key(requested) && g0.module_slots@[requested] is Pending)) // [redirect_recorded_and_pending_marker_dropped]
}
} // verus!
