// Positions and ranges (C08: "a position lookup on a module's dependencies returns the dependency
// whose range contains the position")
verus! {

/// positions are ordered by line, then by character
pub open spec fn pos_cmp(a: Position, b: Position) -> Ordering {
    if a.line < b.line { Ordering::Less } else if a.line > b.line { Ordering::Greater }
    else if a.character < b.character { Ordering::Less } else if a.character > b.character { Ordering::Greater }
    else { Ordering::Equal }
}
pub open spec fn pos_le(a: Position, b: Position) -> bool { pos_cmp(a, b) != Ordering::Greater }

impl vstd::std_specs::cmp::PartialEqSpecImpl for Position {
    open spec fn obeys_eq_spec() -> bool { true }
    open spec fn eq_spec(&self, other: &Position) -> bool { *self == *other }
}
impl vstd::std_specs::cmp::PartialOrdSpecImpl for Position {
    open spec fn obeys_partial_cmp_spec() -> bool { true }
    open spec fn partial_cmp_spec(&self, other: &Position) -> Option<Ordering> { Some(pos_cmp(*self, *other)) }
}
impl vstd::std_specs::cmp::OrdSpecImpl for Position {
    open spec fn obeys_cmp_spec() -> bool { true }
    open spec fn cmp_spec(&self, other: &Position) -> Ordering { pos_cmp(*self, *other) }
}

/// inclusive on both ends
pub open spec fn range_includes(r: PositionRange, p: Position) -> bool { pos_le(r.start, p) && pos_le(p, r.end) }

pub open spec fn res_err_range(e: ResolutionError) -> Range {
    match e {
        ResolutionError::InvalidDowngrade { range, .. } => range,
        ResolutionError::InvalidJsrHttpsTypesImport { range, .. } => range,
        ResolutionError::InvalidLocalImport { range, .. } => range,
        ResolutionError::InvalidSpecifier { range, .. } => range,
        ResolutionError::ResolverError { range, .. } => range,
    }
}
pub open spec fn resolution_includes_spec(r: Resolution, p: Position) -> Option<Range> {
    match r {
        Resolution::Ok(resolved) => if range_includes(resolved.range.range, p) { Some(resolved.range) } else { None },
        Resolution::Err(e) => if range_includes(res_err_range(*e).range, p) { Some(res_err_range(*e)) } else { None },
        Resolution::None => None,
    }
}
pub open spec fn opt_range_eq(r: Option<&Range>, s: Option<Range>) -> bool {
    match r { Some(x) => s == Some(*x), None => s is None }
}
/// index of the first import whose specifier range contains the position
pub open spec fn first_import_including(imports: Seq<Import>, p: Position, n: int) -> Option<int>
    decreases n,
{
    if n <= 0 { None } else {
        match first_import_including(imports, p, n - 1) {
            Some(i) => Some(i),
            None => if n - 1 < imports.len() && range_includes(imports[n - 1].specifier_range.range, p) { Some(n - 1) } else { None },
        }
    }
}
pub proof fn lemma_first_import_found(imports: Seq<Import>, p: Position, i: int, n: int)
    requires 0 <= i < n <= imports.len(), first_import_including(imports, p, i) is None, range_includes(imports[i].specifier_range.range, p),
    ensures first_import_including(imports, p, n) == Some(i),
    decreases n - i,
{
    if n == i + 1 { } else { lemma_first_import_found(imports, p, i, n - 1); }
}
/// the range of the first import containing the position; else the type resolution's range when
/// it contains the position (`@deno-types` directives are not associated with an import); else none
pub open spec fn dependency_includes_spec(d: Dependency, p: Position) -> Option<Range> {
    match first_import_including(d.imports@, p, d.imports@.len() as int) {
        Some(i) => Some(d.imports@[i].specifier_range),
        None => resolution_includes_spec(d.maybe_type, p),
    }
}
} // verus!
