// Builder::load_with_redirect_count — what a load request does before any loader is asked.
// C07: "records for every registry package the `jsr:` and `npm:` requirements its modules import" (the call sites of
// mark_jsr_dep / mark_npm_dep); C03: a rejected request "becomes an error entry for the affected specifier";
// C19 anchor "existing-slot short-circuit": a request for something the graph already has changes no entry.
verus! {
/// where a request for `s` is directed: the recorded redirect target, else `s` itself
pub open spec fn request_target(g: ModuleGraph, s: Url) -> Url {
    if g.redirects@.contains_key(s) { g.redirects@[s] } else { s }
}
pub open spec fn attr_allowed(flags: (bool, bool, bool, bool, bool), kind: Seq<char>) -> bool {
    if kind == "bytes"@ { flags.0 } else if kind == "text"@ { flags.1 } else if kind == "css"@ { flags.2 } else { false }
}
/// an asset request that is refused outright, with the error entry it gets
pub open spec fn asset_refusal(flags: (bool, bool, bool, bool, bool), o: LoadOptionsRef, t: Url) -> Option<ModuleErrorKind> {
    let mt = media_type_of_specifier(t);
    if !o.is_asset { None }
    else if o.maybe_source_phase_referrer is Some && !(mt == MediaType::Wasm && o.maybe_attribute_type is None) {
        Some(ModuleErrorKind::UnsupportedModuleTypeForSourcePhaseImport {
            specifier: t, referrer: *o.maybe_source_phase_referrer.unwrap(), actual_media_type: mt,
            actual_attribute_type: match o.maybe_attribute_type { Some(a) => Some(a.kind), None => None } })
    } else if o.maybe_attribute_type is Some && !attr_allowed(flags, o.maybe_attribute_type.unwrap().kind@) {
        Some(ModuleErrorKind::UnsupportedImportAttributeType { specifier: t, referrer: o.maybe_attribute_type.unwrap().range, kind: o.maybe_attribute_type.unwrap().kind })
    } else { None }
}
/// graph `g1` is `g0` with the slot of `u` set to `s` and nothing else touched
pub open spec fn slot_set(g0: ModuleGraph, g1: ModuleGraph, u: Url, s: ModuleSlot) -> bool {
    &&& g1.module_slots@ == g0.module_slots@.insert(u, s)
    &&& g1.redirects == g0.redirects && g1.roots == g0.roots && g1.imports == g0.imports && g1.packages == g0.packages
    &&& g1.graph_kind == g0.graph_kind && g1.has_node_specifier == g0.has_node_specifier && g1.npm_dep_graph_result == g0.npm_dep_graph_result
}
/// the package table after the request's requirement was attributed to the importing package (mark_jsr_dep / mark_npm_dep)
pub open spec fn dep_attributed(t0: PackageSpecifiers, kind: Result<LoadSpecifierKind, ModuleError>, r: Option<Range>) -> PackageSpecifiers {
    match kind {
        Ok(LoadSpecifierKind::Jsr(p)) => jsr_dep_marked(t0, p, r),
        Ok(LoadSpecifierKind::Npm(p)) => npm_dep_marked(t0, p, r),
        _ => t0,
    }
}
pub open spec fn is_jsr_or_npm(s: Url) -> bool { url_scheme(s) == "jsr"@ || url_scheme(s) == "npm"@ }
/// a request whose target already has an entry (and is not an external asset being re-requested as a module): no
/// entry, redirect, root or import changes; the only effect on the graph is the attribution of a jsr:/npm: requirement
pub open spec fn short_circuited(g0: ModuleGraph, o: LoadOptionsRef) -> bool {
    let t = request_target(g0, *o.specifier);
    g0.module_slots@.contains_key(t) && !(slot_was_external_asset(g0.module_slots@[t]) && !o.is_asset)
}
pub open spec fn slot_was_external_asset(s: ModuleSlot) -> bool {
    match s { ModuleSlot::Module(Module::External(e)) => e.was_asset_load, _ => false }
}
pub open spec fn slot_is_pending_asset(s: ModuleSlot) -> bool {
    match s { ModuleSlot::Pending { is_asset } => is_asset, _ => false }
}
pub open spec fn load_request_post(flags: (bool, bool, bool, bool, bool), g0: ModuleGraph, g1: ModuleGraph, redirect_count: usize, o: LoadOptionsRef) -> bool {
    let t = request_target(g0, *o.specifier);
    let r = opt_range(o.maybe_range);
    match asset_refusal(flags, o, t) {
        Some(kind) => g1.module_slots@.contains_key(t) && (match g1.module_slots@[t] { ModuleSlot::Err(e) => *e.0 == kind, _ => false })
            && slot_set(g0, g1, t, g1.module_slots@[t]), // [refused_asset_request_becomes_an_error_entry_for_the_target]
        None => if short_circuited(g0, o) {
            &&& only_packages_changed(g0, g1) // [request_for_a_known_specifier_changes_no_entry]
            &&& g1.packages == (if is_jsr_or_npm(*o.specifier) { dep_attributed(g0.packages, load_kind(*o.specifier, r), r) } else { g0.packages }) // [known_jsr_or_npm_requirement_still_attributed_to_the_importer]
        } else if o.maybe_version_info is Some && subpath_of(*o.maybe_version_info.unwrap(), t) is Some {
            g1 == after_load_subpath(g0, t, subpath_of(*o.maybe_version_info.unwrap(), t).unwrap()) // [module_inside_a_known_package_version_loaded_through_its_manifest]
        } else {
            let k = load_kind(t, r);
            let gm = ModuleGraph { packages: dep_attributed(g0.packages, k, r), ..g0 }; // [fresh_jsr_or_npm_requirement_attributed_to_the_importer_first]
            match k {
                Ok(LoadSpecifierKind::Jsr(p)) => if flags.3 {
                    slot_set(gm, g1, t, ModuleSlot::Module(Module::External(ExternalModule { specifier: t, maybe_cache_info: None, was_asset_load: false })))
                } else { g1 == after_load_jsr(gm, t, p, r) },
                Ok(LoadSpecifierKind::Npm(p)) => if flags.4 { g1 == after_load_npm(gm, t, p, r) } else { exists|item: PendingModuleLoadItem| url_item(item, t, redirect_count, o) && g1 == #[trigger] after_load_url(gm, item) },
                Ok(LoadSpecifierKind::Node(name)) => g1.has_node_specifier && g1.module_slots@ == g0.module_slots@.insert(t, ModuleSlot::Module(Module::Node(BuiltInNodeModule { specifier: t, module_name: name })))
                    && g1.redirects == g0.redirects && g1.roots == g0.roots && g1.imports == g0.imports && g1.packages == g0.packages, // [node_builtin_recorded]
                Ok(LoadSpecifierKind::Url) => exists|item: PendingModuleLoadItem| url_item(item, t, redirect_count, o) && g1 == #[trigger] after_load_url(gm, item), // [plain_url_is_loaded_at_the_redirect_target]
                Err(e) => slot_set(g0, g1, t, ModuleSlot::Err(e)), // [rejected_specifier_becomes_an_error_entry_for_the_target]
            }
        },
    }
}
/// the loader request made for a plain URL: it asks for the target, remembers it as the requested specifier, and carries
/// the request's referrer, flags and redirect count
pub open spec fn url_item(item: PendingModuleLoadItem, t: Url, redirect_count: usize, o: LoadOptionsRef) -> bool {
    url_item_from(item, t, o.maybe_attribute_type, redirect_count, o)
}
pub open spec fn url_item_from(item: PendingModuleLoadItem, s: Url, a: Option<AttributeTypeWithRange>, redirect_count: usize, o: LoadOptionsRef) -> bool {
    item.redirect_count == redirect_count && item.requested_specifier == s && item.load_specifier == s
      && item.maybe_attribute_type == a && item.maybe_range == opt_range(o.maybe_range)
      && item.maybe_source_phase_referrer == opt_range(o.maybe_source_phase_referrer)
      && item.is_asset == o.is_asset && item.in_dynamic_branch == o.in_dynamic_branch && item.is_root == o.is_root
      && item.maybe_checksum is None && item.maybe_version_info is None
}
} // verus!
