// C01, second sentence (fragment): "Each module's recorded dependencies - specifier text, ... static-versus-dynamic
// (static wins when a specifier is imported both ways) - match what its source text declares"
verus! {
/// (mentions a term so that the solver can use it as a witness)
pub open spec fn mention<T>(x: T) -> bool { true }
pub open spec fn is_decl_media(m: MediaType) -> bool { m == MediaType::Dts || m == MediaType::Dmts || m == MediaType::Dcts }
/// an import that contributes to the code side of a dependency (everything except type-only imports, and nothing in
/// declaration files)
pub open spec fn is_code_import(mt: MediaType, im: Import) -> bool {
    ((im.kind == ImportKind::Es || im.kind == ImportKind::EsSource || im.kind == ImportKind::Require) && !is_decl_media(mt))
      || im.kind == ImportKind::JsxImportSource
}
/// what must hold of the Dependency recorded under the specifier text `k`
pub open spec fn dep_ok(mt: MediaType, gk: GraphKind, k: Seq<char>, d: Dependency) -> bool {
    // "one Dependency per specifier text": everything listed under `k` was imported as `k`
    &&& forall|i: int| 0 <= i < d.imports@.len() ==> (#[trigger] d.imports@[i]).specifier@ == k
    // "static wins when a specifier is imported both ways": a dependency is dynamic only if every code import of it is
    &&& (d.is_dynamic ==> forall|i: int| 0 <= i < d.imports@.len() && is_code_import(mt, #[trigger] d.imports@[i]) ==> d.imports@[i].is_dynamic)
    // ... and a dependency with code imports that are all dynamic is dynamic
    &&& (!d.is_dynamic ==> (forall|i: int| 0 <= i < d.imports@.len() ==> !is_code_import(mt, #[trigger] d.imports@[i]))
                           || exists|i: int| 0 <= i < d.imports@.len() && is_code_import(mt, #[trigger] d.imports@[i]) && !d.imports@[i].is_dynamic)
    // the code side is resolved exactly when a code import has been seen
    &&& (d.maybe_code is None ==> forall|i: int| 0 <= i < d.imports@.len() ==> !is_code_import(mt, #[trigger] d.imports@[i]))
    &&& (!(d.maybe_code is None) ==> exists|i: int| 0 <= i < d.imports@.len() && is_code_import(mt, #[trigger] d.imports@[i]))
    // code-only graphs record no type information
    &&& (!inc_types(gk) ==> d.maybe_type is None && d.maybe_deno_types_specifier is None
            && forall|i: int| 0 <= i < d.imports@.len() ==> (#[trigger] d.imports@[i]).kind != ImportKind::TsType && d.imports@[i].kind != ImportKind::TsModuleAugmentation)
    // the `type` attribute: a dependency one of whose imports (of whatever kind) carries one has an attribute type recorded
    &&& (forall|i: int| 0 <= i < d.imports@.len() && attr_has((#[trigger] d.imports@[i]).attributes, "type"@) ==> d.maybe_attribute_type is Some)
}
pub open spec fn deps_ok(mt: MediaType, gk: GraphKind, m: IndexMap<String, Dependency>) -> bool {
    im_keys(m).len() == im_vals(m).len() && forall|i: int| 0 <= i < im_keys(m).len() ==> dep_ok(mt, gk, (#[trigger] im_keys(m)[i])@, im_vals(m)[i])
}
pub proof fn lemma_default_dep_ok(mt: MediaType, gk: GraphKind, k: Seq<char>, d: Dependency)
    requires is_default_dep(d),
    ensures dep_ok(mt, gk, k, d),
{
}
/// dropping imports keeps a dependency well-formed as long as no code import is dropped
pub proof fn lemma_dep_ok_filter(mt: MediaType, gk: GraphKind, k: Seq<char>, d0: Dependency, d1: Dependency)
    requires
        dep_ok(mt, gk, k, d0),
        d1.maybe_code == d0.maybe_code && d1.maybe_type == d0.maybe_type && d1.maybe_deno_types_specifier == d0.maybe_deno_types_specifier
            && d1.is_dynamic == d0.is_dynamic && d1.maybe_attribute_type == d0.maybe_attribute_type,
        forall|j: int| 0 <= j < d1.imports@.len() ==> d0.imports@.contains(#[trigger] d1.imports@[j]),
        forall|i: int| 0 <= i < d0.imports@.len() && is_code_import(mt, #[trigger] d0.imports@[i]) ==> d1.imports@.contains(d0.imports@[i]),
    ensures dep_ok(mt, gk, k, d1),
{
    assert forall|j: int| 0 <= j < d1.imports@.len() implies (#[trigger] d1.imports@[j]).specifier@ == k by {
        let i = choose|i: int| 0 <= i < d0.imports@.len() && d0.imports@[i] == d1.imports@[j];
    }
    assert forall|j: int| 0 <= j < d1.imports@.len() && attr_has((#[trigger] d1.imports@[j]).attributes, "type"@) implies d1.maybe_attribute_type is Some by {
        let i = choose|i: int| 0 <= i < d0.imports@.len() && d0.imports@[i] == d1.imports@[j];
    }
    if d1.is_dynamic {
        assert forall|j: int| 0 <= j < d1.imports@.len() && is_code_import(mt, #[trigger] d1.imports@[j]) implies d1.imports@[j].is_dynamic by {
            let i = choose|i: int| 0 <= i < d0.imports@.len() && d0.imports@[i] == d1.imports@[j];
        }
    } else {
        if exists|i: int| 0 <= i < d0.imports@.len() && is_code_import(mt, #[trigger] d0.imports@[i]) && !d0.imports@[i].is_dynamic {
            let i = choose|i: int| 0 <= i < d0.imports@.len() && is_code_import(mt, #[trigger] d0.imports@[i]) && !d0.imports@[i].is_dynamic;
            let j = choose|j: int| 0 <= j < d1.imports@.len() && d1.imports@[j] == d0.imports@[i];
            assert(is_code_import(mt, d1.imports@[j]) && !d1.imports@[j].is_dynamic);
        } else {
            assert forall|j: int| 0 <= j < d1.imports@.len() implies !is_code_import(mt, #[trigger] d1.imports@[j]) by {
                let i = choose|i: int| 0 <= i < d0.imports@.len() && d0.imports@[i] == d1.imports@[j];
            }
        }
    }
    if d1.maybe_code is None {
        assert forall|j: int| 0 <= j < d1.imports@.len() implies !is_code_import(mt, #[trigger] d1.imports@[j]) by {
            let i = choose|i: int| 0 <= i < d0.imports@.len() && d0.imports@[i] == d1.imports@[j];
        }
    }
    if !inc_types(gk) {
        assert forall|j: int| 0 <= j < d1.imports@.len() implies (#[trigger] d1.imports@[j]).kind != ImportKind::TsType && d1.imports@[j].kind != ImportKind::TsModuleAugmentation by {
            let i = choose|i: int| 0 <= i < d0.imports@.len() && d0.imports@[i] == d1.imports@[j];
        }
    }
    if !(d1.maybe_code is None) {
        let i = choose|i: int| 0 <= i < d0.imports@.len() && is_code_import(mt, #[trigger] d0.imports@[i]);
        let j = choose|j: int| 0 <= j < d1.imports@.len() && d1.imports@[j] == d0.imports@[i];
        assert(is_code_import(mt, d1.imports@[j]));
    }
}
/// one more import recorded under its own text
pub proof fn lemma_dep_ok_push(mt: MediaType, gk: GraphKind, k: Seq<char>, d0: Dependency, d1: Dependency, im: Import)
    requires
        dep_ok(mt, gk, k, d0), im.specifier@ == k,
        d1.imports@ == d0.imports@.push(im),
        // the dynamic flag after this import: the first code import decides, later ones can only make it static
        is_code_import(mt, im) ==> !(d1.maybe_code is None) && d1.is_dynamic == (if d0.maybe_code is None { im.is_dynamic } else { d0.is_dynamic && im.is_dynamic }),
        !is_code_import(mt, im) ==> d1.is_dynamic == d0.is_dynamic && d1.maybe_code == d0.maybe_code,
        !inc_types(gk) ==> d1.maybe_type is None && d1.maybe_deno_types_specifier is None && im.kind != ImportKind::TsType && im.kind != ImportKind::TsModuleAugmentation,
        // the attribute type: kept once recorded, and recorded when this import carries a `type` attribute
        d0.maybe_attribute_type is Some ==> d1.maybe_attribute_type is Some,
        attr_has(im.attributes, "type"@) ==> d1.maybe_attribute_type is Some,
    ensures dep_ok(mt, gk, k, d1),
{
    let n = d0.imports@.len() as int;
    assert(d1.imports@[n] == im);
    assert forall|i: int| 0 <= i < d1.imports@.len() && attr_has((#[trigger] d1.imports@[i]).attributes, "type"@) implies d1.maybe_attribute_type is Some by {
        if i < n { assert(d1.imports@[i] == d0.imports@[i]); }
    }
    assert forall|i: int| 0 <= i < n implies d1.imports@[i] == d0.imports@[i] by { }
    if d1.is_dynamic {
        assert forall|i: int| 0 <= i < d1.imports@.len() && is_code_import(mt, #[trigger] d1.imports@[i]) implies d1.imports@[i].is_dynamic by {
            if i < n { assert(d1.imports@[i] == d0.imports@[i]); }
        }
    } else {
        if is_code_import(mt, im) {
            if d0.maybe_code is None { assert(is_code_import(mt, d1.imports@[n]) && !d1.imports@[n].is_dynamic); }
            else if !im.is_dynamic { assert(is_code_import(mt, d1.imports@[n]) && !d1.imports@[n].is_dynamic); }
            else {
                assert(!d0.is_dynamic);
                // the code side was resolved already, so a code import is listed; since the dependency is static, one of them is
                let c = choose|i: int| 0 <= i < n && is_code_import(mt, #[trigger] d0.imports@[i]);
                let i = choose|i: int| 0 <= i < n && is_code_import(mt, #[trigger] d0.imports@[i]) && !d0.imports@[i].is_dynamic;
                assert(d1.imports@[i] == d0.imports@[i]);
            }
        } else {
            if exists|i: int| 0 <= i < n && is_code_import(mt, #[trigger] d0.imports@[i]) && !d0.imports@[i].is_dynamic {
                let i = choose|i: int| 0 <= i < n && is_code_import(mt, #[trigger] d0.imports@[i]) && !d0.imports@[i].is_dynamic;
                assert(d1.imports@[i] == d0.imports@[i]);
            } else {
                assert forall|i: int| 0 <= i < d1.imports@.len() implies !is_code_import(mt, #[trigger] d1.imports@[i]) by {
                    if i < n { assert(d1.imports@[i] == d0.imports@[i]); }
                }
            }
        }
    }
    if d1.maybe_code is None {
        assert forall|i: int| 0 <= i < d1.imports@.len() implies !is_code_import(mt, #[trigger] d1.imports@[i]) by {
            if i < n { assert(d1.imports@[i] == d0.imports@[i]); }
        }
    } else {
        if is_code_import(mt, im) { assert(is_code_import(mt, d1.imports@[n])); }
        else {
            let i = choose|i: int| 0 <= i < n && is_code_import(mt, #[trigger] d0.imports@[i]);
            assert(d1.imports@[i] == d0.imports@[i]);
        }
    }
}
/// the import kinds fill_module_dependencies itself creates
pub open spec fn fill_kind(k: ImportKind) -> bool {
    k == ImportKind::Es || k == ImportKind::EsSource || k == ImportKind::Require || k == ImportKind::TsType || k == ImportKind::TsModuleAugmentation
}
pub open spec fn fill_imports_ok(gk: GraphKind, ims: Seq<Import>) -> bool {
    forall|x: int| 0 <= x < ims.len() ==> fill_kind((#[trigger] ims[x]).kind)
        && (!inc_types(gk) ==> ims[x].kind != ImportKind::TsType && ims[x].kind != ImportKind::TsModuleAugmentation)
}
pub proof fn lemma_dep_filtered_refl(d: Dependency)
    ensures dep_filtered(d, d),
{
}
/// removing module-augmentation imports from a dependency (the closure of the final `retain`)
pub open spec fn dep_filtered(d0: Dependency, d1: Dependency) -> bool {
    &&& d1.maybe_code == d0.maybe_code && d1.maybe_type == d0.maybe_type && d1.maybe_deno_types_specifier == d0.maybe_deno_types_specifier && d1.is_dynamic == d0.is_dynamic
        && d1.maybe_attribute_type == d0.maybe_attribute_type
    &&& forall|j: int| 0 <= j < d1.imports@.len() ==> d0.imports@.contains(#[trigger] d1.imports@[j])
    &&& forall|i: int| 0 <= i < d0.imports@.len() && (#[trigger] d0.imports@[i]).kind != ImportKind::TsModuleAugmentation ==> d1.imports@.contains(d0.imports@[i])
}
} // verus!
