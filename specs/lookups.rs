// Specification of redirect following and of the lookups, written from the statement of C14.
verus! {

pub open spec fn redirect_of(g: ModuleGraph, s: Url) -> Option<Url> {
    if g.redirects@.contains_key(s) { Some(g.redirects@[s]) } else { None }
}

/// Follow redirects from `cur`, `hops` hops already made through the specifiers in `seen`;
/// stop at a specifier that is not redirected, when the next hop would revisit a specifier
/// (cycle), or after 10 hops (the loader's default redirect limit).
pub open spec fn rs_from(g: ModuleGraph, cur: Url, seen: Set<&Url>, hops: nat) -> Url
    decreases 10 - hops,
{
    if hops >= 10 { cur } else {
        match redirect_of(g, cur) {
            None => cur,
            Some(t) => if seen.contains(&t) { cur } else { rs_from(g, t, seen.insert(&t), hops + 1) },
        }
    }
}

pub open spec fn resolve_spec(g: ModuleGraph, s: Url) -> Url {
    rs_from(g, s, Set::<&Url>::empty().insert(&s), 0)
}
/// one unfolding of rs_from, case by case (used by the loop of `resolve` so that its proof does not depend on
/// the solver unfolding the recursive definition by itself)
pub proof fn lemma_rs_cases(g: ModuleGraph, cur: Url, seen: Set<&Url>, hops: nat)
    ensures
        hops >= 10 ==> rs_from(g, cur, seen, hops) == cur,
        redirect_of(g, cur) is None ==> rs_from(g, cur, seen, hops) == cur,
        redirect_of(g, cur) is Some && seen.contains(&redirect_of(g, cur).unwrap()) ==> rs_from(g, cur, seen, hops) == cur,
        hops < 10 && redirect_of(g, cur) is Some && !seen.contains(&redirect_of(g, cur).unwrap())
            ==> rs_from(g, cur, seen, hops) == rs_from(g, redirect_of(g, cur).unwrap(), seen.insert(&redirect_of(g, cur).unwrap()), hops + 1),
{
    reveal_with_fuel(rs_from, 2);
}

} // verus!
verus! {

pub open spec fn slot_at(g: ModuleGraph, s: Url) -> Option<ModuleSlot> {
    if g.module_slots@.contains_key(s) { Some(g.module_slots@[s]) } else { None }
}
/// the module a lookup of `s` reaches: the Module slot at the end of the redirect chain
pub open spec fn module_at(g: ModuleGraph, s: Url) -> Option<Module> {
    match slot_at(g, resolve_spec(g, s)) {
        Some(ModuleSlot::Module(m)) => Some(m),
        _ => None,
    }
}
/// the error a lookup of `s` reaches
pub open spec fn error_at(g: ModuleGraph, s: Url) -> Option<ModuleError> {
    match slot_at(g, resolve_spec(g, s)) {
        Some(ModuleSlot::Err(e)) => Some(e),
        _ => None,
    }
}
pub open spec fn try_get_post(g: ModuleGraph, s: Url, r: Result<Option<&Module>, &ModuleError>) -> bool {
    match r {
        Ok(Some(m)) => module_at(g, s) == Some(*m),
        Ok(None) => module_at(g, s) is None && error_at(g, s) is None,
        Err(e) => error_at(g, s) == Some(*e),
    }
}
pub open spec fn res_specifier(r: Resolution) -> Option<Url> {
    match r { Resolution::Ok(resolved) => Some(resolved.specifier), _ => None }
}
/// the resolved target of a JS module's own types dependency (`@ts-self-types`, `X-TypeScript-Types`)
pub open spec fn types_target(m: Module) -> Option<Url> {
    match m {
        Module::Js(js) => match js.maybe_types_dependency {
            Some(td) => res_specifier(td.dependency),
            None => None,
        },
        _ => None,
    }
}
pub open spec fn try_get_prefer_types_post(g: ModuleGraph, s: Url, r: Result<Option<&Module>, &ModuleError>) -> bool {
    if error_at(g, s) is Some { r is Err && *r->Err_0 == error_at(g, s).unwrap() }
    else if module_at(g, s) is None { r == Ok::<Option<&Module>, &ModuleError>(None) }
    else {
        match types_target(module_at(g, s).unwrap()) {
            Some(t) => try_get_post(g, t, r),
            None => r is Ok && r->Ok_0 is Some && *r->Ok_0.unwrap() == module_at(g, s).unwrap(),
        }
    }
}
/// "resolving a dependency with a type preference returns the types module when one is loaded
/// and the code module otherwise"
pub open spec fn dep_target(g: ModuleGraph, d: Dependency, prefer_types: bool) -> Option<Url> {
    let first = if prefer_types { d.maybe_type } else { d.maybe_code };
    let second = if prefer_types { d.maybe_code } else { d.maybe_type };
    let unresolved = if res_specifier(first) is Some { res_specifier(first) } else { res_specifier(second) };
    match unresolved {
        None => None,
        Some(u) => {
            match module_at(g, u) {
                None => None,
                Some(m) => {
                    if prefer_types && m is Js && types_target(m) is Some && module_at(g, types_target(m).unwrap()) is Some {
                        Some(resolve_spec(g, types_target(m).unwrap()))
                    } else {
                        Some(resolve_spec(g, u))
                    }
                },
            }
        },
    }
}
pub open spec fn module_deps(m: Module) -> Option<IndexMap<String, Dependency>> {
    match m {
        Module::Js(js) => Some(js.dependencies),
        Module::Wasm(w) => Some(w.dependencies),
        _ => None,
    }
}
pub open spec fn opt_url_eq(r: Option<&Url>, s: Option<Url>) -> bool {
    match r { Some(u) => s == Some(*u), None => s is None }
}

} // verus!
verus! {

pub open spec fn dep_by_text(deps: IndexMap<String, Dependency>, text: Seq<char>) -> Option<Dependency> {
    im_get(deps, text)
}
/// resolve_dependency(text, referrer, prefer_types): the referrer is looked up like any module
/// (through redirects); a configured-imports referrer is consulted when no module is there.
pub open spec fn resolve_dependency_spec(g: ModuleGraph, text: Seq<char>, referrer: Url, prefer_types: bool) -> Option<Url> {
    match module_at(g, referrer) {
        Some(m) => match module_deps(m) {
            Some(deps) => match dep_by_text(deps, text) {
                Some(d) => dep_target(g, d, prefer_types),
                None => None,
            },
            None => None,
        },
        None => match graph_import_at(g, resolve_spec(g, referrer)) {
            Some(gi) => match dep_by_text(gi.dependencies, text) {
                Some(d) => dep_target(g, d, prefer_types),
                None => None,
            },
            None => None,
        },
    }
}
pub open spec fn graph_import_at(g: ModuleGraph, s: Url) -> Option<GraphImport> {
    im_get_url(g.imports, s)
}

} // verus!
// ---- property-level lemmas of C14 over the contracts above
verus! {

/// n redirect hops from `s` (stays put once no redirect applies)
pub open spec fn hop(g: ModuleGraph, s: Url, n: nat) -> Url
    decreases n,
{
    if n == 0 { s } else {
        match redirect_of(g, s) {
            Some(t) => hop(g, t, (n - 1) as nat),
            None => s,
        }
    }
}
/// the redirect chain from `s` ends after exactly `n` hops at a specifier that is not redirected
pub open spec fn ends_at(g: ModuleGraph, s: Url, n: nat) -> bool {
    &&& redirect_of(g, hop(g, s, n)) is None
    &&& forall|k: nat| k < n ==> redirect_of(g, #[trigger] hop(g, s, k)) is Some
}
pub open spec fn prefix_set(g: ModuleGraph, s: Url, k: nat) -> Set<&'static Url>
    decreases k,
{
    if k == 0 { Set::<&Url>::empty().insert(&s) } else { prefix_set(g, s, (k - 1) as nat).insert(&hop(g, s, k)) }
}

pub proof fn lemma_hop_step(g: ModuleGraph, s: Url, k: nat)
    ensures hop(g, s, k + 1) == (match redirect_of(g, hop(g, s, k)) { Some(t) => t, None => hop(g, s, k) }),
    decreases k,
{
    if k == 0 {
        match redirect_of(g, s) { Some(t) => { assert(hop(g, t, 0) == t); }, None => {} }
    } else {
        match redirect_of(g, s) {
            Some(t) => { lemma_hop_step(g, t, (k - 1) as nat); },
            None => { },
        }
    }
}
pub proof fn lemma_hop_add(g: ModuleGraph, s: Url, a: nat, b: nat)
    ensures hop(g, hop(g, s, a), b) == hop(g, s, a + b),
    decreases b,
{
    if b == 0 { } else {
        lemma_hop_add(g, s, a, (b - 1) as nat);
        lemma_hop_step(g, hop(g, s, a), (b - 1) as nat);
        lemma_hop_step(g, s, (a + b - 1) as nat);
    }
}
/// an ending chain never revisits a specifier
pub proof fn lemma_chain_distinct(g: ModuleGraph, s: Url, n: nat, i: nat, j: nat)
    requires ends_at(g, s, n), i < j <= n,
    ensures hop(g, s, i) != hop(g, s, j),
{
    if hop(g, s, i) == hop(g, s, j) {
        let t = (n - j) as nat;
        lemma_hop_add(g, s, i, t);
        lemma_hop_add(g, s, j, t);
        assert(hop(g, s, i + t) == hop(g, s, n));
        assert(i + t < n);
        assert(redirect_of(g, hop(g, s, (i + t) as nat)) is Some);
    }
}
pub proof fn lemma_prefix_set_contains(g: ModuleGraph, s: Url, k: nat, x: Url)
    ensures prefix_set(g, s, k).contains(&x) <==> exists|i: nat| i <= k && hop(g, s, i) == x,
    decreases k,
{
    if k == 0 {
        if x == s { assert(hop(g, s, 0) == x); }
    } else {
        lemma_prefix_set_contains(g, s, (k - 1) as nat, x);
        if prefix_set(g, s, k).contains(&x) {
            if x == hop(g, s, k) { } else {
                let i = choose|i: nat| i <= (k - 1) as nat && hop(g, s, i) == x;
                assert(i <= k);
            }
        }
        if exists|i: nat| i <= k && hop(g, s, i) == x {
            let i = choose|i: nat| i <= k && hop(g, s, i) == x;
            if i == k { } else { assert(i <= (k - 1) as nat); }
        }
    }
}
proof fn lemma_rs_from_chain(g: ModuleGraph, s: Url, n: nat, k: nat)
    requires ends_at(g, s, n), n <= 10, k <= n,
    ensures rs_from(g, hop(g, s, k), prefix_set(g, s, k), k) == hop(g, s, n),
    decreases n - k,
{
    if k == n {
    } else {
        let cur = hop(g, s, k);
        assert(redirect_of(g, cur) is Some);
        let t = redirect_of(g, cur).unwrap();
        lemma_hop_step(g, s, k);
        assert(t == hop(g, s, k + 1));
        lemma_prefix_set_contains(g, s, k, t);
        if prefix_set(g, s, k).contains(&t) {
            let i = choose|i: nat| i <= k && hop(g, s, i) == t;
            lemma_chain_distinct(g, s, n, i, (k + 1) as nat);
        }
        lemma_rs_from_chain(g, s, n, (k + 1) as nat);
        assert(prefix_set(g, s, (k + 1) as nat) == prefix_set(g, s, k).insert(&t));
    }
}

/// C14: on a redirect chain that ends within the limit, following redirects yields the end of the chain
pub proof fn lemma_resolve_reaches_chain_end(g: ModuleGraph, s: Url, n: nat)
    requires ends_at(g, s, n), n <= 10,
    ensures resolve_spec(g, s) == hop(g, s, n), // [resolve_reaches_chain_end]
{
    lemma_rs_from_chain(g, s, n, 0);
}

/// C14: ... and is idempotent there
pub proof fn lemma_resolve_idempotent(g: ModuleGraph, s: Url, n: nat)
    requires ends_at(g, s, n), n <= 10,
    ensures resolve_spec(g, resolve_spec(g, s)) == resolve_spec(g, s), // [resolve_idempotent]
{
    lemma_resolve_reaches_chain_end(g, s, n);
    let e = hop(g, s, n);
    assert(redirect_of(g, e) is None);
    assert(rs_from(g, e, Set::<&Url>::empty().insert(&e), 0) == e);
}

/// C14: resolve always returns a specifier on the chain, at most 10 hops away, and stops early
/// only at the end of the chain or when the next hop would revisit a specifier
pub proof fn lemma_resolve_on_chain(g: ModuleGraph, s: Url)
    ensures exists|n: nat| n <= 10 && resolve_spec(g, s) == hop(g, s, n), // [resolve_bounded]
{
    lemma_rs_on_chain(g, s, s, Set::<&Url>::empty().insert(&s), 0, 0);
}
proof fn lemma_rs_on_chain(g: ModuleGraph, s: Url, cur: Url, seen: Set<&Url>, hops: nat, k: nat)
    requires cur == hop(g, s, k), k <= hops <= 10 || hops <= 10, k == hops,
    ensures exists|n: nat| n <= 10 && rs_from(g, cur, seen, hops) == hop(g, s, n),
    decreases 10 - hops,
{
    if hops >= 10 { assert(rs_from(g, cur, seen, hops) == hop(g, s, k)); } else {
        match redirect_of(g, cur) {
            None => { assert(rs_from(g, cur, seen, hops) == hop(g, s, k)); },
            Some(t) => {
                if seen.contains(&t) { assert(rs_from(g, cur, seen, hops) == hop(g, s, k)); } else {
                    lemma_hop_step(g, s, k);
                    lemma_rs_on_chain(g, s, t, seen.insert(&t), hops + 1, k + 1);
                }
            },
        }
    }
}

/// the graph shape the builder maintains (assumed, not proved: builder is async): a redirect source
/// has no entry of its own
pub open spec fn redirect_sources_have_no_slot(g: ModuleGraph) -> bool {
    forall|s: Url| g.redirects@.contains_key(s) ==> !#[trigger] g.module_slots@.contains_key(s)
}

/// what walking from `s` reaches: redirect entries are followed one by one until a specifier
/// with an entry of its own
pub open spec fn walk_reaches(g: ModuleGraph, s: Url, n: nat) -> Option<ModuleSlot> {
    slot_at(g, hop(g, s, n))
}

/// C14: lookups agree with the walk — for a chain of n <= 10 hops the walk passes `n` Redirect
/// entries (no slot on the way) and the entry it reaches is the one `get`/`try_get`/`contains` use
pub proof fn lemma_lookup_agrees_with_walk(g: ModuleGraph, s: Url, n: nat)
    requires ends_at(g, s, n), n <= 10, redirect_sources_have_no_slot(g),
    ensures
        forall|k: nat| k < n ==> slot_at(g, #[trigger] hop(g, s, k)) is None && redirect_of(g, hop(g, s, k)) is Some,
        slot_at(g, resolve_spec(g, s)) == walk_reaches(g, s, n), // [lookup_agrees_with_walk]
{
    lemma_resolve_reaches_chain_end(g, s, n);
    assert forall|k: nat| k < n implies slot_at(g, #[trigger] hop(g, s, k)) is None && redirect_of(g, hop(g, s, k)) is Some by {
        assert(redirect_of(g, hop(g, s, k)) is Some);
        assert(g.redirects@.contains_key(hop(g, s, k)));
    }
}

} // verus!
verus! {
/// C14/C03 anchor: recording a redirect drops the pending slot of the requested specifier and
/// nothing else; the first recorded target of a specifier wins; everything else is unchanged.
pub open spec fn add_redirect_post(g0: ModuleGraph, g1: ModuleGraph, from: Url, to: Url) -> bool {
    &&& g1.redirects@ == (if g0.redirects@.contains_key(from) { g0.redirects@ } else { g0.redirects@.insert(from, to) })
    &&& g1.module_slots@ == (
          if g0.module_slots@.contains_key(from) && g0.module_slots@[from] is Pending { g0.module_slots@.remove(from) }
          else { g0.module_slots@ })
    &&& g1.graph_kind == g0.graph_kind && g1.roots == g0.roots && g1.imports == g0.imports
          && g1.has_node_specifier == g0.has_node_specifier
}
} // verus!
