// Specification for prune_types (C17, unary clauses) and SeenPendingCollection
verus! {
pub open spec fn spc_seq<T: std::hash::Hash + Eq + Clone>(c: SeenPendingCollection<T>) -> Seq<T> { is_seq(c.inner) }

pub open spec fn has_types(k: GraphKind) -> bool { k == GraphKind::All || k == GraphKind::TypesOnly }

/// a dependency with its type information removed: "no remaining type resolutions"
pub open spec fn pruned_dep(d: Dependency) -> Dependency {
    Dependency {
        maybe_code: d.maybe_code,
        maybe_type: Resolution::None,
        maybe_deno_types_specifier: None,
        is_dynamic: d.is_dynamic,
        maybe_attribute_type: d.maybe_attribute_type,
        imports: d.imports,
    }
}
/// `b` is `a` with every dependency pruned: same keys, same order, code edges and dynamic flags untouched
pub open spec fn pruned_deps(a: IndexMap<String, Dependency>, b: IndexMap<String, Dependency>) -> bool {
    im_keys(b) == im_keys(a) && im_vals(b).len() == im_vals(a).len()
        && forall|i: int| 0 <= i < im_vals(a).len() ==> #[trigger] im_vals(b)[i] == pruned_dep(im_vals(a)[i])
}
pub uninterp spec fn empty_arc_str() -> std::sync::Arc<str>;

/// a module with its type information removed: no types dependency, no fast-check data, no
/// generated declaration text, pruned dependencies; everything else unchanged
pub open spec fn pruned_module(a: Module, b: Module) -> bool {
    match (a, b) {
        (Module::Js(x), Module::Js(y)) => y.fast_check is None && y.maybe_types_dependency is None && pruned_deps(x.dependencies, y.dependencies)
            && y.is_script == x.is_script && y.maybe_cache_info == x.maybe_cache_info && y.mtime == x.mtime && y.media_type == x.media_type
            && y.specifier == x.specifier && y.maybe_source_map_dependency == x.maybe_source_map_dependency,
        (Module::Wasm(x), Module::Wasm(y)) => y.source_dts == empty_arc_str() && pruned_deps(x.dependencies, y.dependencies)
            && y.specifier == x.specifier && y.mtime == x.mtime && y.maybe_cache_info == x.maybe_cache_info,
        (Module::Js(_), _) | (Module::Wasm(_), _) => false,
        _ => b == a,
    }
}
pub open spec fn pruned_slot(a: ModuleSlot, b: ModuleSlot) -> bool {
    match (a, b) {
        (ModuleSlot::Module(m), ModuleSlot::Module(n)) => pruned_module(m, n),
        (ModuleSlot::Module(_), _) => false,
        _ => b == a,
    }
}

/// the source map a JS module names (loaded by every build, also code-only ones)
pub open spec fn smap_target(x: JsModule) -> Option<Url> {
    match x.maybe_source_map_dependency { Some(d) => res_specifier(d.dependency), None => None }
}
/// the edges a code-only build follows: redirects, the source map of a JS module, and the resolved code targets of the
/// dependencies of JS / Wasm modules (static and dynamic alike)
pub open spec fn code_edge(g: ModuleGraph, a: Url, b: Url) -> bool {
    match redirect_of(g, a) {
        Some(t) => t == b,
        None => match slot_at(g, a) {
            Some(ModuleSlot::Module(Module::Js(x))) => (exists|i: int| 0 <= i < im_vals(x.dependencies).len() && res_specifier((#[trigger] im_vals(x.dependencies)[i]).maybe_code) == Some(b))
                || smap_target(x) == Some(b),
            Some(ModuleSlot::Module(Module::Wasm(x))) => exists|i: int| 0 <= i < im_vals(x.dependencies).len() && res_specifier((#[trigger] im_vals(x.dependencies)[i]).maybe_code) == Some(b),
            _ => false,
        },
    }
}
pub open spec fn is_code_path(g: ModuleGraph, p: Seq<Url>) -> bool {
    &&& p.len() > 0
    &&& is_seq(g.roots).contains(p[0])
    &&& forall|i: int| 0 <= i < p.len() - 1 ==> code_edge(g, #[trigger] p[i], p[i + 1])
}
/// "the same specifiers ... as the graph built code-only": reachable from the roots by code edges
pub open spec fn code_reach(g: ModuleGraph, t: Url) -> bool {
    exists|p: Seq<Url>| is_code_path(g, p) && #[trigger] p.last() == t
}
/// a kept specifier whose entry was processed (it is not a redirect source)
pub open spec fn processed(g: ModuleGraph, s: Url) -> bool { code_reach(g, s) && redirect_of(g, s) is None }

/// C17 (unary clauses): what removing types does to a graph that has them
pub open spec fn prune_post(g0: ModuleGraph, g1: ModuleGraph) -> bool {
    if !has_types(g0.graph_kind) { g1 == g0 } else {
        // "the graph reports itself as code-only", "no configured type imports"
        &&& g1.graph_kind == GraphKind::CodeOnly
        &&& im_vals(g1.imports).len() == 0
        &&& g1.roots == g0.roots
        // "the same specifiers": exactly the entries and redirects reachable by code edges are kept
        &&& forall|s: Url| #[trigger] g1.module_slots@.contains_key(s) <==> (g0.module_slots@.contains_key(s) && code_reach(g0, s))
        &&& forall|s: Url| #[trigger] g1.redirects@.contains_key(s) <==> (g0.redirects@.contains_key(s) && code_reach(g0, s))
        &&& forall|s: Url| #[trigger] g1.redirects@.contains_key(s) ==> g1.redirects@[s] == g0.redirects@[s]
        // "no remaining type resolutions, type dependencies, fast-check data": every kept entry
        // that is not a redirect source is the pruned form of the original; code edges and dynamic
        // flags are untouched (pruned_dep)
        &&& forall|s: Url| #[trigger] g1.module_slots@.contains_key(s) ==>
              (if redirect_of(g0, s) is None { pruned_slot(g0.module_slots@[s], g1.module_slots@[s]) } else { g1.module_slots@[s] == g0.module_slots@[s] })
        &&& g1.has_node_specifier == (exists|s: Url| processed(g0, s) && #[trigger] g0.module_slots@.contains_key(s) && g0.module_slots@[s] is Module && g0.module_slots@[s]->Module_0 is Node)
    }
}
} // verus!
verus! {
pub open spec fn code_target_upto(deps: Seq<Dependency>, n: int, t: Url) -> bool {
    exists|i: int| 0 <= i < n && i < deps.len() && res_specifier((#[trigger] deps[i]).maybe_code) == Some(t)
}
/// effect of handling the dependencies of one module on the worklist
pub open spec fn handled(sq0: Seq<Url>, sq1: Seq<Url>, deps: Seq<Dependency>, n: int) -> bool {
    sq0.is_prefix_of(sq1) && forall|t: Url| #[trigger] sq1.contains(t) <==> (sq0.contains(t) || code_target_upto(deps, n, t))
}
pub proof fn lemma_handled_step(sq0: Seq<Url>, sq1: Seq<Url>, sq2: Seq<Url>, deps: Seq<Dependency>, n: int)
    requires
        1 <= n <= deps.len(), handled(sq0, sq1, deps, n - 1),
        match res_specifier(deps[n - 1].maybe_code) {
            Some(t) => sq2 == (if sq1.contains(t) { sq1 } else { sq1.push(t) }),
            None => sq2 == sq1,
        },
    ensures handled(sq0, sq2, deps, n),
{
    assert(sq0.is_prefix_of(sq2)) by {
        assert(sq1.is_prefix_of(sq2));
        assert forall|i: int| 0 <= i < sq0.len() implies sq0[i] == sq2[i] by { assert(sq0[i] == sq1[i]); assert(sq1[i] == sq2[i]); }
    }
    assert forall|t: Url| #[trigger] sq2.contains(t) <==> (sq0.contains(t) || code_target_upto(deps, n, t)) by {
        assert(sq1.contains(t) <==> (sq0.contains(t) || code_target_upto(deps, n - 1, t)));
        if sq2.contains(t) && !sq1.contains(t) {
            let i = choose|i: int| 0 <= i < sq2.len() && sq2[i] == t;
            assert(i == sq1.len());
            assert(res_specifier(deps[n - 1].maybe_code) == Some(t));
        }
        if sq1.contains(t) {
            let i = choose|i: int| 0 <= i < sq1.len() && sq1[i] == t;
            assert(sq2[i] == t);
        }
        if code_target_upto(deps, n, t) && !code_target_upto(deps, n - 1, t) {
            let i = choose|i: int| 0 <= i < n && i < deps.len() && res_specifier((#[trigger] deps[i]).maybe_code) == Some(t);
            assert(i == n - 1);
            if !sq1.contains(t) { assert(sq2[sq1.len() as int] == t); }
        }
        if code_target_upto(deps, n - 1, t) {
            let i = choose|i: int| 0 <= i < n - 1 && i < deps.len() && res_specifier((#[trigger] deps[i]).maybe_code) == Some(t);
            assert(0 <= i < n);
        }
    }
}
pub proof fn lemma_handled_init(sq0: Seq<Url>, deps: Seq<Dependency>)
    ensures handled(sq0, sq0, deps, 0),
{
}
} // verus!
verus! {
pub open spec fn visited(sq: Seq<Url>, ni: int, s: Url) -> bool {
    exists|i: int| 0 <= i < ni && i < sq.len() && #[trigger] sq[i] == s
}
pub open spec fn node_slot(g: ModuleGraph, s: Url) -> bool {
    redirect_of(g, s) is None && g.module_slots@.contains_key(s) && g.module_slots@[s] is Module && g.module_slots@[s]->Module_0 is Node
}
/// worklist invariant of prune_types: `sq` is the seen sequence, its first `ni` elements are done
pub open spec fn prune_inv(g0: ModuleGraph, cur: ModuleGraph, sq: Seq<Url>, ni: int, hn: bool) -> bool {
    &&& 0 <= ni <= sq.len() && sq.no_duplicates()
    &&& cur.graph_kind == GraphKind::CodeOnly && cur.roots == g0.roots && cur.redirects@ == g0.redirects@ && im_vals(cur.imports).len() == 0
    &&& forall|s: Url| #[trigger] cur.module_slots@.contains_key(s) <==> g0.module_slots@.contains_key(s)
    &&& forall|s: Url| #[trigger] sq.contains(s) ==> code_reach(g0, s)
    &&& forall|r: Url| #[trigger] is_seq(g0.roots).contains(r) ==> sq.contains(r)
    &&& forall|i: int, t: Url| 0 <= i < ni && #[trigger] code_edge(g0, sq[i], t) ==> sq.contains(t)
    &&& forall|s: Url| #[trigger] g0.module_slots@.contains_key(s) ==>
          (if visited(sq, ni, s) && redirect_of(g0, s) is None { pruned_slot(g0.module_slots@[s], cur.module_slots@[s]) } else { cur.module_slots@[s] == g0.module_slots@[s] })
    &&& hn <==> exists|s: Url| visited(sq, ni, s) && #[trigger] node_slot(g0, s)
}
/// what one iteration does, seen from the worklist and from the graph
pub open spec fn prune_step(g0: ModuleGraph, cur0: ModuleGraph, cur1: ModuleGraph, sq0: Seq<Url>, sq1: Seq<Url>, p: Url, hn0: bool, hn1: bool) -> bool {
    &&& sq0.is_prefix_of(sq1) && sq1.no_duplicates()
    &&& forall|t: Url| #[trigger] sq1.contains(t) <==> (sq0.contains(t) || code_edge(g0, p, t))
    &&& cur1.graph_kind == cur0.graph_kind && cur1.roots == cur0.roots && cur1.redirects@ == cur0.redirects@ && cur1.imports == cur0.imports
    &&& forall|s: Url| #[trigger] cur1.module_slots@.contains_key(s) <==> cur0.module_slots@.contains_key(s)
    &&& forall|s: Url| s != p && #[trigger] cur0.module_slots@.contains_key(s) ==> cur1.module_slots@[s] == cur0.module_slots@[s]
    &&& cur0.module_slots@.contains_key(p) ==>
          (if redirect_of(g0, p) is None { pruned_slot(cur0.module_slots@[p], cur1.module_slots@[p]) } else { cur1.module_slots@[p] == cur0.module_slots@[p] })
    &&& hn1 == (hn0 || node_slot(g0, p))
}

pub proof fn lemma_code_reach_edge(g: ModuleGraph, x: Url, t: Url)
    requires code_reach(g, x), code_edge(g, x, t),
    ensures code_reach(g, t),
{
    let p = choose|p: Seq<Url>| is_code_path(g, p) && #[trigger] p.last() == x;
    let q = p.push(t);
    assert forall|i: int| 0 <= i < q.len() - 1 implies code_edge(g, #[trigger] q[i], q[i + 1]) by {
        if i < p.len() - 1 { assert(q[i] == p[i] && q[i + 1] == p[i + 1]); } else { assert(q[i] == x && q[i + 1] == t); }
    }
    assert(q[0] == p[0]);
    assert(is_code_path(g, q));
    assert(q.last() == t);
}
pub proof fn lemma_code_reach_root(g: ModuleGraph, r: Url)
    requires is_seq(g.roots).contains(r),
    ensures code_reach(g, r),
{
    let p = seq![r];
    assert(is_code_path(g, p));
    assert(p.last() == r);
}

pub proof fn lemma_prune_init(g0: ModuleGraph, cur: ModuleGraph, sq: Seq<Url>)
    requires
        sq.no_duplicates(),
        forall|x: Url| #![trigger sq.contains(x)] sq.contains(x) <==> is_seq(g0.roots).contains(x),
        cur.graph_kind == GraphKind::CodeOnly, cur.roots == g0.roots, cur.redirects@ == g0.redirects@, im_vals(cur.imports).len() == 0,
        cur.module_slots@ == g0.module_slots@,
    ensures prune_inv(g0, cur, sq, 0, false),
{
    assert forall|s: Url| #[trigger] sq.contains(s) implies code_reach(g0, s) by { lemma_code_reach_root(g0, s); }
    assert forall|s: Url| !visited(sq, 0, s) by { }
}
pub proof fn lemma_prune_step(g0: ModuleGraph, cur0: ModuleGraph, cur1: ModuleGraph, sq0: Seq<Url>, sq1: Seq<Url>, ni0: int, hn0: bool, hn1: bool)
    requires
        prune_inv(g0, cur0, sq0, ni0, hn0), ni0 < sq0.len(),
        prune_step(g0, cur0, cur1, sq0, sq1, sq0[ni0], hn0, hn1),
    ensures prune_inv(g0, cur1, sq1, ni0 + 1, hn1),
{
    let p = sq0[ni0];
    let ni1 = ni0 + 1;
    assert(sq1[ni0] == p);
    assert(sq0.contains(p));
    // p was not visited before (no duplicates)
    assert(!visited(sq0, ni0, p)) by {
        if visited(sq0, ni0, p) { let i = choose|i: int| 0 <= i < ni0 && i < sq0.len() && #[trigger] sq0[i] == p; assert(sq0[i] == sq0[ni0]); }
    }
    assert forall|s: Url| visited(sq1, ni1, s) <==> (visited(sq0, ni0, s) || s == p) by {
        if visited(sq1, ni1, s) {
            let i = choose|i: int| 0 <= i < ni1 && i < sq1.len() && #[trigger] sq1[i] == s;
            if i < ni0 { assert(sq0[i] == sq1[i]); assert(sq0[i] == s); }
        }
        if visited(sq0, ni0, s) {
            let i = choose|i: int| 0 <= i < ni0 && i < sq0.len() && #[trigger] sq0[i] == s;
            assert(sq1[i] == sq0[i]);
            assert(sq1[i] == s);
        }
        if s == p { assert(sq1[ni0] == s); }
    }
    assert forall|s: Url| #[trigger] sq1.contains(s) implies code_reach(g0, s) by {
        if !sq0.contains(s) { lemma_code_reach_edge(g0, p, s); }
    }
    assert forall|r: Url| #[trigger] is_seq(g0.roots).contains(r) implies sq1.contains(r) by { assert(sq0.contains(r)); }
    assert forall|i: int, t: Url| 0 <= i < ni1 && #[trigger] code_edge(g0, sq1[i], t) implies sq1.contains(t) by {
        if i < ni0 { assert(sq1[i] == sq0[i]); assert(sq0.contains(t)); } else { assert(sq1[i] == p); }
    }
    assert forall|s: Url| #[trigger] g0.module_slots@.contains_key(s) implies
          (if visited(sq1, ni1, s) && redirect_of(g0, s) is None { pruned_slot(g0.module_slots@[s], cur1.module_slots@[s]) } else { cur1.module_slots@[s] == g0.module_slots@[s] }) by {
        assert(cur0.module_slots@.contains_key(s));
        if s == p {
            assert(cur0.module_slots@[p] == g0.module_slots@[p]);
        } else {
            assert(cur1.module_slots@[s] == cur0.module_slots@[s]);
            assert(visited(sq1, ni1, s) <==> visited(sq0, ni0, s));
        }
    }
    assert(hn1 <==> exists|s: Url| visited(sq1, ni1, s) && #[trigger] node_slot(g0, s)) by {
        if hn1 {
            if hn0 {
                let s = choose|s: Url| visited(sq0, ni0, s) && #[trigger] node_slot(g0, s);
                assert(visited(sq1, ni1, s));
            } else { assert(visited(sq1, ni1, p) && node_slot(g0, p)); }
        }
        if exists|s: Url| visited(sq1, ni1, s) && #[trigger] node_slot(g0, s) {
            let s = choose|s: Url| visited(sq1, ni1, s) && #[trigger] node_slot(g0, s);
            if s != p { assert(visited(sq0, ni0, s)); }
        }
    }
}

/// a set that contains the roots and is closed under code edges
pub open spec fn code_closed(g0: ModuleGraph, sq: Seq<Url>) -> bool {
    &&& forall|r: Url| #[trigger] is_seq(g0.roots).contains(r) ==> sq.contains(r)
    &&& forall|x: Url, t: Url| sq.contains(x) && #[trigger] code_edge(g0, x, t) ==> sq.contains(t)
}
pub proof fn lemma_drained_closed(g0: ModuleGraph, cur: ModuleGraph, sq: Seq<Url>, hn: bool)
    requires prune_inv(g0, cur, sq, sq.len() as int, hn),
    ensures code_closed(g0, sq), forall|s: Url| #[trigger] sq.contains(s) ==> code_reach(g0, s),
{
    assert forall|x: Url, t: Url| sq.contains(x) && #[trigger] code_edge(g0, x, t) implies sq.contains(t) by {
        let i = choose|i: int| 0 <= i < sq.len() && sq[i] == x;
        assert(code_edge(g0, sq[i], t));
    }
}
/// when the worklist is drained, the seen set is exactly the code-reachable set
pub proof fn lemma_prune_drained(g0: ModuleGraph, cur: ModuleGraph, sq: Seq<Url>, hn: bool, t: Url)
    requires prune_inv(g0, cur, sq, sq.len() as int, hn),
    ensures code_reach(g0, t) <==> sq.contains(t),
{
    lemma_drained_closed(g0, cur, sq, hn);
    if code_reach(g0, t) {
        let p = choose|p: Seq<Url>| is_code_path(g0, p) && #[trigger] p.last() == t;
        lemma_code_path_seen(g0, sq, p, (p.len() - 1) as int);
    }
}
proof fn lemma_code_path_seen(g0: ModuleGraph, sq: Seq<Url>, p: Seq<Url>, k: int)
    requires code_closed(g0, sq), is_code_path(g0, p), 0 <= k < p.len(),
    ensures sq.contains(p[k]),
    decreases k,
{
    if k == 0 {
        assert(is_seq(g0.roots).contains(p[0]));
    } else {
        lemma_code_path_seen(g0, sq, p, k - 1);
        assert(code_edge(g0, p[k - 1], p[k]));
    }
}

/// the two `retain` calls and the flag assignment turn the drained invariant into the postcondition
pub proof fn lemma_prune_finish(g0: ModuleGraph, cur: ModuleGraph, g1: ModuleGraph, sq: Seq<Url>, hn: bool)
    requires
        has_types(g0.graph_kind),
        prune_inv(g0, cur, sq, sq.len() as int, hn),
        g1.graph_kind == cur.graph_kind && g1.roots == cur.roots && g1.imports == cur.imports && g1.has_node_specifier == hn,
        forall|s: Url| #[trigger] g1.module_slots@.contains_key(s) <==> (cur.module_slots@.contains_key(s) && sq.contains(s)),
        forall|s: Url| #[trigger] g1.module_slots@.contains_key(s) ==> g1.module_slots@[s] == cur.module_slots@[s],
        forall|s: Url| #[trigger] g1.redirects@.contains_key(s) <==> (cur.redirects@.contains_key(s) && sq.contains(s)),
        forall|s: Url| #[trigger] g1.redirects@.contains_key(s) ==> g1.redirects@[s] == cur.redirects@[s],
    ensures prune_post(g0, g1),
{
    assert forall|s: Url| code_reach(g0, s) <==> sq.contains(s) by { lemma_prune_drained(g0, cur, sq, hn, s); }
    assert forall|s: Url| visited(sq, sq.len() as int, s) <==> sq.contains(s) by {
        if sq.contains(s) { let i = choose|i: int| 0 <= i < sq.len() && sq[i] == s; assert(sq[i] == s); }
    }
    assert forall|s: Url| #[trigger] g1.module_slots@.contains_key(s) implies
        (if redirect_of(g0, s) is None { pruned_slot(g0.module_slots@[s], g1.module_slots@[s]) } else { g1.module_slots@[s] == g0.module_slots@[s] }) by {
        assert(g0.module_slots@.contains_key(s));
        assert(visited(sq, sq.len() as int, s));
    }
    assert(hn == (exists|s: Url| processed(g0, s) && #[trigger] g0.module_slots@.contains_key(s) && g0.module_slots@[s] is Module && g0.module_slots@[s]->Module_0 is Node)) by {
        if hn {
            let s = choose|s: Url| visited(sq, sq.len() as int, s) && #[trigger] node_slot(g0, s);
            assert(processed(g0, s) && g0.module_slots@.contains_key(s));
        }
        if exists|s: Url| processed(g0, s) && #[trigger] g0.module_slots@.contains_key(s) && g0.module_slots@[s] is Module && g0.module_slots@[s]->Module_0 is Node {
            let s = choose|s: Url| processed(g0, s) && #[trigger] g0.module_slots@.contains_key(s) && g0.module_slots@[s] is Module && g0.module_slots@[s]->Module_0 is Node;
            assert(visited(sq, sq.len() as int, s) && node_slot(g0, s));
        }
    }
}
} // verus!
verus! {
pub proof fn lemma_prune_inv_frame(g0: ModuleGraph, cur: ModuleGraph, sq: Seq<Url>, ni: int, hn: bool)
    requires prune_inv(g0, cur, sq, ni, hn),
    ensures
        0 <= ni <= sq.len(), sq.no_duplicates(),
        cur.graph_kind == GraphKind::CodeOnly, cur.roots == g0.roots, cur.redirects@ == g0.redirects@, im_vals(cur.imports).len() == 0,
        forall|s: Url| #[trigger] cur.module_slots@.contains_key(s) <==> g0.module_slots@.contains_key(s),
        ni < sq.len() ==> (g0.module_slots@.contains_key(sq[ni]) ==> cur.module_slots@[sq[ni]] == g0.module_slots@[sq[ni]]),
{
    if ni < sq.len() {
        let p = sq[ni];
        if visited(sq, ni, p) { let i = choose|i: int| 0 <= i < ni && i < sq.len() && #[trigger] sq[i] == p; assert(sq[i] == sq[ni]); }
    }
}
/// assemble `prune_step` from what an iteration observably did
pub proof fn lemma_prune_step_facts(g0: ModuleGraph, cur0: ModuleGraph, cur1: ModuleGraph, sq0: Seq<Url>, sq1: Seq<Url>, p: Url, hn0: bool, hn1: bool, targets: spec_fn(Url) -> bool)
    requires
        sq0.is_prefix_of(sq1), sq1.no_duplicates(),
        forall|t: Url| #[trigger] sq1.contains(t) <==> (sq0.contains(t) || targets(t)),
        forall|t: Url| code_edge(g0, p, t) <==> #[trigger] targets(t),
        cur1.graph_kind == cur0.graph_kind, cur1.roots == cur0.roots, cur1.redirects@ == cur0.redirects@, cur1.imports == cur0.imports,
        cur1.module_slots@ == cur0.module_slots@ || (cur0.module_slots@.contains_key(p) && cur1.module_slots@ == cur0.module_slots@.insert(p, cur1.module_slots@[p])),
        cur0.module_slots@.contains_key(p) ==>
            (if redirect_of(g0, p) is None { pruned_slot(cur0.module_slots@[p], cur1.module_slots@[p]) } else { cur1.module_slots@[p] == cur0.module_slots@[p] }),
        hn1 == (hn0 || node_slot(g0, p)),
    ensures prune_step(g0, cur0, cur1, sq0, sq1, p, hn0, hn1),
{
    assert forall|t: Url| #[trigger] sq1.contains(t) <==> (sq0.contains(t) || code_edge(g0, p, t)) by { assert(code_edge(g0, p, t) <==> targets(t)); }
}
} // verus!
verus! {
pub proof fn lemma_seq_add(sq0: Seq<Url>, sq1: Seq<Url>, x: Url)
    requires sq0.no_duplicates(), sq1 == (if sq0.contains(x) { sq0 } else { sq0.push(x) }),
    ensures sq0.is_prefix_of(sq1), sq1.no_duplicates(), forall|t: Url| #[trigger] sq1.contains(t) <==> (sq0.contains(t) || t == x),
{
    if !sq0.contains(x) {
        assert forall|i: int, j: int| 0 <= i < sq1.len() && 0 <= j < sq1.len() && i != j implies sq1[i] != sq1[j] by {
            if i < sq0.len() && j < sq0.len() { assert(sq0[i] != sq0[j]); }
            else if i < sq0.len() { assert(sq0.contains(sq0[i])); }
            else { assert(sq0.contains(sq0[j])); }
        }
        assert forall|t: Url| #[trigger] sq1.contains(t) <==> (sq0.contains(t) || t == x) by {
            if sq1.contains(t) { let i = choose|i: int| 0 <= i < sq1.len() && sq1[i] == t; if i < sq0.len() { assert(sq0[i] == t); } }
            if sq0.contains(t) { let i = choose|i: int| 0 <= i < sq0.len() && sq0[i] == t; assert(sq1[i] == t); }
            if t == x { assert(sq1[sq0.len() as int] == t); }
        }
    }
}
} // verus!
