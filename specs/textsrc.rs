// C20: "the stored source text is the decoding of the loaded bytes under the charset given by the
// content-type header, a byte-order mark, or UTF-8 by default ...; undecodable input becomes a decode error
// rather than a module"
verus! {
/// the charset the bytes are decoded with: the header's when present, else detected from the bytes
pub open spec fn charset_for(specifier: Url, bytes: std::sync::Arc<[u8]>, header_charset: Option<Seq<char>>) -> Seq<char> {
    match header_charset { Some(c) => c, None => detect_charset_spec(specifier, (*bytes)@) }
}
/// the text source stored for (specifier, bytes, header charset): exactly what decoding under that charset gives;
/// a decode failure is a Load/Decode error naming the specifier
pub open spec fn text_source_post(specifier: Url, bytes: std::sync::Arc<[u8]>, header_charset: Option<Seq<char>>, mtime: Option<SystemTime>,
                                  r: Result<ModuleTextSource, ModuleError>) -> bool {
    match decode_spec(charset_for(specifier, bytes, header_charset), bytes) {
        Ok(detail) => r is Ok && r->Ok_0.text == detail.text && r->Ok_0.decoded_kind == detail.kind,
        Err(ioe) => r is Err && match *r->Err_0.0 {
            ModuleErrorKind::Load { specifier: s, maybe_referrer, err } =>
                s == specifier && maybe_referrer is None && match err {
                    ModuleLoadError::Decode(d) => d.mtime == mtime && d.err == ioe,
                    _ => false,
                },
            _ => false,
        },
    }
}
pub open spec fn is_text_media(m: MediaType) -> bool {
    m == MediaType::JavaScript || m == MediaType::Mjs || m == MediaType::Jsx || m == MediaType::TypeScript || m == MediaType::Mts
      || m == MediaType::Tsx || m == MediaType::Cjs || m == MediaType::Cts || m == MediaType::Dts || m == MediaType::Dmts || m == MediaType::Dcts
}
/// what parse_module_source_and_info stores for a loaded module (C20 clauses; the media-type dispatch itself is
/// only constrained as far as C20 needs it)
pub open spec fn parsed_post(specifier: Url, headers: Option<std::collections::HashMap<String, String>>, content: std::sync::Arc<[u8]>, mtime: Option<SystemTime>,
                             r: Result<ModuleSourceAndInfo, ModuleError>) -> bool {
    let hs = headers_spec(specifier, headers);
    match r {
        Ok(ModuleSourceAndInfo::Json { specifier: s, mtime: mt, source }) =>
            s == specifier && mt == mtime && hs.0 == MediaType::Json
              && text_source_post(specifier, content, hs.1, mtime, Ok(source)), // [json_text_is_the_decoding_under_the_header_charset]
        Ok(ModuleSourceAndInfo::Js { specifier: s, media_type, maybe_headers, module_info, mtime: mt, source }) =>
            s == specifier && mt == mtime && maybe_headers == headers && is_text_media(media_type)
              && text_source_post(specifier, content, hs.1, mtime, Ok(source)), // [js_text_is_the_decoding_under_the_header_charset]
        Ok(ModuleSourceAndInfo::Wasm { specifier: s, module_info, mtime: mt, source, source_dts }) =>
            s == specifier && mt == mtime && source == content, // [wasm_bytes_are_the_loaded_bytes]
        Err(e) => true,
    }
}
/// "undecodable input becomes a decode error rather than a module"
pub open spec fn undecodable_is_error(specifier: Url, headers: Option<std::collections::HashMap<String, String>>, content: std::sync::Arc<[u8]>,
                                      r: Result<ModuleSourceAndInfo, ModuleError>) -> bool {
    let hs = headers_spec(specifier, headers);
    decode_spec(charset_for(specifier, content, hs.1), content) is Err ==> !(r is Ok && (r->Ok_0 is Json || r->Ok_0 is Js))
}
} // verus!
