// Specification of JSR version selection, transcribed from the statement of C06.
verus! {

pub type VItem<'a> = (&'a Version, Option<&'a JsrPackageInfoVersion>);

/// "not newer than the configured newest-dependency date": a version passes when there is no
/// cutoff (none configured, or the package is excluded), when nothing is known about its
/// creation date, or when it was created before the cutoff.
pub open spec fn date_ok(info: Option<&JsrPackageInfoVersion>, cutoff: Option<NewestDependencyDate>) -> bool {
    match (info, cutoff) {
        (Some(i), Some(c)) => match i.created_at {
            Some(d) => date_lt(d, c.0),
            None => true,
        },
        _ => true,
    }
}

pub open spec fn item_ok(req: VersionReq, cutoff: Option<NewestDependencyDate>, item: VItem) -> bool {
    req_matches(req, *item.0) && date_ok(item.1, cutoff)
}

/// result of the fold over one candidate sequence: the maximum eligible version, else "none"
/// together with whether some candidate satisfied the requirement at all.
pub open spec fn rv_post(req: VersionReq, cutoff: Option<NewestDependencyDate>, all: Seq<VItem>, r: ResolveVersionResult) -> bool {
    match r {
        ResolveVersionResult::Some(v) => {
            &&& exists|i: int| 0 <= i < all.len() && *(#[trigger] all[i]).0 == *v && item_ok(req, cutoff, all[i])
            &&& forall|j: int| 0 <= j < all.len() && item_ok(req, cutoff, #[trigger] all[j]) ==> !v_lt(*v, *all[j].0)
        },
        ResolveVersionResult::None { had_higher_date_version } => {
            &&& forall|j: int| 0 <= j < all.len() ==> !item_ok(req, cutoff, #[trigger] all[j])
            &&& had_higher_date_version <==> exists|j: int| 0 <= j < all.len() && req_matches(req, *(#[trigger] all[j]).0)
        },
    }
}

// ---- the four tiers of C06, as predicates on a candidate version `w`
pub open spec fn in_existing(existing: Seq<&Version>, w: Version) -> bool {
    exists|i: int| 0 <= i < existing.len() && *(#[trigger] existing[i]) == w
}
pub open spec fn tier1(req: VersionReq, existing: Seq<&Version>, w: Version) -> bool {
    in_existing(existing, w) && req_matches(req, w)
}
pub open spec fn registry_ok(req: VersionReq, cutoff: Option<NewestDependencyDate>, info: JsrPackageInfo, yanked: bool, w: Version) -> bool {
    info.versions@.contains_key(w) && info.versions@[w].yanked == yanked && req_matches(req, w)
        && date_ok(Some(&info.versions@[w]), cutoff)
}
pub open spec fn tier_cached(req: VersionReq, cutoff: Option<NewestDependencyDate>, info: JsrPackageInfo, cached: Set<Version>, w: Version) -> bool {
    registry_ok(req, cutoff, info, false, w) && cached.contains(w)
}
pub open spec fn is_best(v: Version, p: spec_fn(Version) -> bool) -> bool {
    p(v) && forall|w: Version| #[trigger] p(w) ==> !v_lt(v, w)
}
pub open spec fn none_of(p: spec_fn(Version) -> bool) -> bool {
    forall|w: Version| !#[trigger] p(w)
}

/// The selection rule of C06.
pub open spec fn select_post(
    req: PackageReq, existing: Seq<&Version>, info: JsrPackageInfo, cached: Set<Version>,
    cutoff: Option<NewestDependencyDate>,
    r: Result<JsrVersionResolverResolvedVersion, JsrPackageReqNotFoundError>,
) -> bool {
    let t1 = |w: Version| tier1(req.version_req, existing, w);
    let tc = |w: Version| tier_cached(req.version_req, cutoff, info, cached, w);
    let t2 = |w: Version| registry_ok(req.version_req, cutoff, info, false, w);
    let t3 = |w: Version| registry_ok(req.version_req, cutoff, info, true, w);
    match r {
        Ok(res) => {
            if !none_of(t1) {
                // highest already-selected version that satisfies the requirement (no date rule)
                is_best(*res.version, t1)
                  && res.is_yanked == (info.versions@.contains_key(*res.version) && info.versions@[*res.version].yanked)
            } else if cached.len() != 0 && !none_of(tc) {
                is_best(*res.version, tc) && !res.is_yanked
            } else if !none_of(t2) {
                is_best(*res.version, t2) && !res.is_yanked
            } else {
                is_best(*res.version, t3) && res.is_yanked
            }
        },
        Err(e) => {
            &&& none_of(t1) && none_of(t2) && none_of(t3)
            &&& e.req == req
            &&& e.newest_dependency_date == (
                  if exists|w: Version| info.versions@.contains_key(w) && #[trigger] req_matches(req.version_req, w) { cutoff } else { None })
        },
    }
}

} // verus!
