// Specification of JSR version selection, transcribed from the statement of C06.
verus! {

pub type VItem<'a> = (&'a Version, Option<&'a JsrPackageInfoVersion>);

/// "not newer than the configured newest-dependency date": a version passes when there is no
/// cutoff (none configured, or the package is excluded), when nothing is known about its
/// creation date, or when it was created before the cutoff.
pub open spec fn date_ok(info: Option<&JsrPackageInfoVersion>, cutoff: Option<NewestDependencyDate>) -> bool {
    match (info, cutoff) {
        (Some(i), Some(c)) => match i.created_at {
            Some(d) => date_lt(d, c.0),
            None => true,
        },
        _ => true,
    }
}

pub open spec fn item_ok(req: VersionReq, cutoff: Option<NewestDependencyDate>, item: VItem) -> bool {
    req_matches(req, *item.0) && date_ok(item.1, cutoff)
}

/// result of the fold over one candidate sequence: the maximum eligible version, else "none"
/// together with whether some candidate satisfied the requirement at all.
pub open spec fn rv_post(req: VersionReq, cutoff: Option<NewestDependencyDate>, all: Seq<VItem>, r: ResolveVersionResult) -> bool {
    match r {
        ResolveVersionResult::Some(v) => {
            &&& exists|i: int| 0 <= i < all.len() && *(#[trigger] all[i]).0 == *v && item_ok(req, cutoff, all[i])
            &&& forall|j: int| 0 <= j < all.len() && item_ok(req, cutoff, #[trigger] all[j]) ==> !v_lt(*v, *all[j].0)
        },
        ResolveVersionResult::None { had_higher_date_version } => {
            &&& forall|j: int| 0 <= j < all.len() ==> !item_ok(req, cutoff, #[trigger] all[j])
            &&& had_higher_date_version <==> exists|j: int| 0 <= j < all.len() && req_matches(req, *(#[trigger] all[j]).0)
        },
    }
}

/// "unless the package is excluded from that rule": by exact name or by a name prefix
pub open spec fn pkg_excluded(o: NewestDependencyDateOptions, name: PackageName) -> bool {
    o.exclude_jsr_pkgs@.contains(name)
      || exists|i: int| 0 <= i < o.exclude_jsr_pkg_prefixes@.len() && pn_text(#[trigger] o.exclude_jsr_pkg_prefixes@[i]).is_prefix_of(pn_text(name))
}

// ---- the four tiers of C06, as predicates on a candidate version `w`
pub open spec fn in_existing(existing: Seq<&Version>, w: Version) -> bool {
    exists|i: int| 0 <= i < existing.len() && *(#[trigger] existing[i]) == w
}
pub open spec fn tier1(req: VersionReq, existing: Seq<&Version>, w: Version) -> bool {
    in_existing(existing, w) && req_matches(req, w)
}
pub open spec fn registry_ok(req: VersionReq, cutoff: Option<NewestDependencyDate>, info: JsrPackageInfo, yanked: bool, w: Version) -> bool {
    info.versions@.contains_key(w) && info.versions@[w].yanked == yanked && req_matches(req, w)
        && date_ok(Some(&info.versions@[w]), cutoff)
}
pub open spec fn tier_cached(req: VersionReq, cutoff: Option<NewestDependencyDate>, info: JsrPackageInfo, cached: Set<Version>, w: Version) -> bool {
    registry_ok(req, cutoff, info, false, w) && cached.contains(w)
}
// "highest ... that satisfies": maximal under the version order within the tier
pub open spec fn best_t1(req: VersionReq, existing: Seq<&Version>, v: Version) -> bool {
    tier1(req, existing, v) && forall|w: Version| #[trigger] tier1(req, existing, w) ==> !v_lt(v, w)
}
pub open spec fn none_t1(req: VersionReq, existing: Seq<&Version>) -> bool {
    forall|w: Version| !#[trigger] tier1(req, existing, w)
}
pub open spec fn best_reg(req: VersionReq, cutoff: Option<NewestDependencyDate>, info: JsrPackageInfo, yanked: bool, v: Version) -> bool {
    registry_ok(req, cutoff, info, yanked, v)
      && forall|w: Version| #[trigger] registry_ok(req, cutoff, info, yanked, w) ==> !v_lt(v, w)
}
pub open spec fn none_reg(req: VersionReq, cutoff: Option<NewestDependencyDate>, info: JsrPackageInfo, yanked: bool) -> bool {
    forall|w: Version| !#[trigger] registry_ok(req, cutoff, info, yanked, w)
}
pub open spec fn best_cached(req: VersionReq, cutoff: Option<NewestDependencyDate>, info: JsrPackageInfo, cached: Set<Version>, v: Version) -> bool {
    tier_cached(req, cutoff, info, cached, v)
      && forall|w: Version| #[trigger] tier_cached(req, cutoff, info, cached, w) ==> !v_lt(v, w)
}
pub open spec fn none_cached(req: VersionReq, cutoff: Option<NewestDependencyDate>, info: JsrPackageInfo, cached: Set<Version>) -> bool {
    forall|w: Version| !#[trigger] tier_cached(req, cutoff, info, cached, w)
}
pub open spec fn some_registry_match(req: VersionReq, info: JsrPackageInfo) -> bool {
    exists|w: Version| info.versions@.contains_key(w) && #[trigger] req_matches(req, w)
}

/// The selection rule of C06.
pub open spec fn select_post(
    req: PackageReq, existing: Seq<&Version>, info: JsrPackageInfo, cached: Set<Version>,
    cutoff: Option<NewestDependencyDate>,
    r: Result<JsrVersionResolverResolvedVersion, JsrPackageReqNotFoundError>,
) -> bool {
    let vr = req.version_req;
    match r {
        Ok(res) => {
            if !none_t1(vr, existing) {
                // highest already-selected version that satisfies the requirement (no date rule)
                best_t1(vr, existing, *res.version)
                  && res.is_yanked == (info.versions@.contains_key(*res.version) && info.versions@[*res.version].yanked)
            } else if cached.len() != 0 && !none_cached(vr, cutoff, info, cached) {
                // cached-manifest mode: highest non-yanked eligible version whose manifest is cached
                best_cached(vr, cutoff, info, cached, *res.version) && !res.is_yanked
            } else if !none_reg(vr, cutoff, info, false) {
                // highest non-yanked eligible registry version
                best_reg(vr, cutoff, info, false, *res.version) && !res.is_yanked
            } else {
                // otherwise the highest yanked eligible version, flagged as yanked
                best_reg(vr, cutoff, info, true, *res.version) && res.is_yanked
            }
        },
        Err(e) => {
            &&& none_t1(vr, existing) && none_reg(vr, cutoff, info, false) && none_reg(vr, cutoff, info, true)
            &&& e.req == req
            // "says when a newer match was excluded by date"
            &&& e.newest_dependency_date == (if some_registry_match(vr, info) { cutoff } else { None })
        },
    }
}

/// `fm` enumerates exactly the registry entries whose yanked flag is `yanked`
/// (and, when `cached` is given, whose version is in the cached set).
pub open spec fn seq_is_registry(info: JsrPackageInfo, yanked: bool, cached: Option<Set<Version>>, fm: Seq<VItem>) -> bool {
    &&& forall|j: int| 0 <= j < fm.len() ==> {
          let w = *(#[trigger] fm[j]).0;
          info.versions@.contains_key(w) && fm[j].1 == Some(&info.versions@[w]) && info.versions@[w].yanked == yanked
            && (cached is Some ==> cached.unwrap().contains(w))
        }
    &&& forall|w: Version| #![trigger info.versions@.contains_key(w)]
          info.versions@.contains_key(w) && info.versions@[w].yanked == yanked && (cached is Some ==> cached.unwrap().contains(w))
            ==> exists|j: int| 0 <= j < fm.len() && *(#[trigger] fm[j]).0 == w
}

pub proof fn lemma_registry_tier(req: VersionReq, cutoff: Option<NewestDependencyDate>, info: JsrPackageInfo, yanked: bool, fm: Seq<VItem>, r: ResolveVersionResult)
    requires
        seq_is_registry(info, yanked, None, fm),
        rv_post(req, cutoff, fm, r),
    ensures
        match r {
            ResolveVersionResult::Some(v) => best_reg(req, cutoff, info, yanked, *v),
            ResolveVersionResult::None { had_higher_date_version } =>
                none_reg(req, cutoff, info, yanked)
                && (had_higher_date_version <==> exists|w: Version| info.versions@.contains_key(w) && info.versions@[w].yanked == yanked && #[trigger] req_matches(req, w)),
        },
{
    match r {
        ResolveVersionResult::Some(v) => {
            let i = choose|i: int| 0 <= i < fm.len() && *(#[trigger] fm[i]).0 == *v && item_ok(req, cutoff, fm[i]);
            assert(registry_ok(req, cutoff, info, yanked, *v));
            assert forall|w: Version| #[trigger] registry_ok(req, cutoff, info, yanked, w) implies !v_lt(*v, w) by {
                let j = choose|j: int| 0 <= j < fm.len() && *(#[trigger] fm[j]).0 == w;
                assert(item_ok(req, cutoff, fm[j]));
            }
        },
        ResolveVersionResult::None { had_higher_date_version } => {
            assert forall|w: Version| !#[trigger] registry_ok(req, cutoff, info, yanked, w) by {
                if registry_ok(req, cutoff, info, yanked, w) {
                    let j = choose|j: int| 0 <= j < fm.len() && *(#[trigger] fm[j]).0 == w;
                    assert(item_ok(req, cutoff, fm[j]));
                }
            }
            if had_higher_date_version {
                let j = choose|j: int| 0 <= j < fm.len() && req_matches(req, *(#[trigger] fm[j]).0);
                let w = *fm[j].0;
                assert(info.versions@.contains_key(w) && info.versions@[w].yanked == yanked && req_matches(req, w));
            }
            if exists|w: Version| info.versions@.contains_key(w) && info.versions@[w].yanked == yanked && #[trigger] req_matches(req, w) {
                let w = choose|w: Version| info.versions@.contains_key(w) && info.versions@[w].yanked == yanked && #[trigger] req_matches(req, w);
                let j = choose|j: int| 0 <= j < fm.len() && *(#[trigger] fm[j]).0 == w;
                assert(req_matches(req, *fm[j].0));
            }
        },
    }
}

pub proof fn lemma_cached_tier(req: VersionReq, cutoff: Option<NewestDependencyDate>, info: JsrPackageInfo, cached: Set<Version>, fm: Seq<VItem>, r: ResolveVersionResult)
    requires
        seq_is_registry(info, false, Some(cached), fm),
        rv_post(req, cutoff, fm, r),
    ensures
        match r {
            ResolveVersionResult::Some(v) => best_cached(req, cutoff, info, cached, *v),
            ResolveVersionResult::None { .. } => none_cached(req, cutoff, info, cached),
        },
{
    match r {
        ResolveVersionResult::Some(v) => {
            let i = choose|i: int| 0 <= i < fm.len() && *(#[trigger] fm[i]).0 == *v && item_ok(req, cutoff, fm[i]);
            assert(tier_cached(req, cutoff, info, cached, *v));
            assert forall|w: Version| #[trigger] tier_cached(req, cutoff, info, cached, w) implies !v_lt(*v, w) by {
                let j = choose|j: int| 0 <= j < fm.len() && *(#[trigger] fm[j]).0 == w;
                assert(item_ok(req, cutoff, fm[j]));
            }
        },
        ResolveVersionResult::None { .. } => {
            assert forall|w: Version| !#[trigger] tier_cached(req, cutoff, info, cached, w) by {
                if tier_cached(req, cutoff, info, cached, w) {
                    let j = choose|j: int| 0 <= j < fm.len() && *(#[trigger] fm[j]).0 == w;
                    assert(item_ok(req, cutoff, fm[j]));
                }
            }
        },
    }
}

/// tier 1: `m` is the element-wise image `(v, None)` of the already-selected versions
pub proof fn lemma_existing_tier(req: VersionReq, existing: Seq<&Version>, m: Seq<VItem>, r: ResolveVersionResult)
    requires
        m.len() == existing.len(),
        forall|i: int| 0 <= i < m.len() ==> #[trigger] m[i] == (existing[i], None::<&JsrPackageInfoVersion>),
        rv_post(req, None, m, r),
    ensures
        match r {
            ResolveVersionResult::Some(v) => best_t1(req, existing, *v),
            ResolveVersionResult::None { .. } => none_t1(req, existing),
        },
{
    match r {
        ResolveVersionResult::Some(v) => {
            let i = choose|i: int| 0 <= i < m.len() && *(#[trigger] m[i]).0 == *v && item_ok(req, None, m[i]);
            assert(*existing[i] == *v);
            assert(tier1(req, existing, *v));
            assert forall|w: Version| #[trigger] tier1(req, existing, w) implies !v_lt(*v, w) by {
                let k = choose|k: int| 0 <= k < existing.len() && *(#[trigger] existing[k]) == w;
                assert(item_ok(req, None, m[k]));
            }
        },
        ResolveVersionResult::None { .. } => {
            assert forall|w: Version| !#[trigger] tier1(req, existing, w) by {
                if tier1(req, existing, w) {
                    let k = choose|k: int| 0 <= k < existing.len() && *(#[trigger] existing[k]) == w;
                    assert(item_ok(req, None, m[k]));
                }
            }
        },
    }
}


pub open spec fn reg_result(req: VersionReq, cutoff: Option<NewestDependencyDate>, info: JsrPackageInfo, yanked: bool, r: ResolveVersionResult) -> bool {
    match r {
        ResolveVersionResult::Some(v) => best_reg(req, cutoff, info, yanked, *v),
        ResolveVersionResult::None { had_higher_date_version } =>
            none_reg(req, cutoff, info, yanked)
            && (had_higher_date_version <==> exists|w: Version| info.versions@.contains_key(w) && info.versions@[w].yanked == yanked && #[trigger] req_matches(req, w)),
    }
}
pub open spec fn cached_result(req: VersionReq, cutoff: Option<NewestDependencyDate>, info: JsrPackageInfo, cached: Set<Version>, r: ResolveVersionResult) -> bool {
    match r {
        ResolveVersionResult::Some(v) => best_cached(req, cutoff, info, cached, *v),
        ResolveVersionResult::None { .. } => none_cached(req, cutoff, info, cached),
    }
}
pub open spec fn t1_result(req: VersionReq, existing: Seq<&Version>, r: ResolveVersionResult) -> bool {
    match r {
        ResolveVersionResult::Some(v) => best_t1(req, existing, *v),
        ResolveVersionResult::None { .. } => none_t1(req, existing),
    }
}

pub proof fn lemma_registry_tier_all(req: VersionReq, cutoff: Option<NewestDependencyDate>, info: JsrPackageInfo, yanked: bool, fm: Seq<VItem>)
    requires seq_is_registry(info, yanked, None, fm),
    ensures forall|r: ResolveVersionResult| #[trigger] rv_post(req, cutoff, fm, r) ==> reg_result(req, cutoff, info, yanked, r),
{
    assert forall|r: ResolveVersionResult| #[trigger] rv_post(req, cutoff, fm, r) implies reg_result(req, cutoff, info, yanked, r) by {
        lemma_registry_tier(req, cutoff, info, yanked, fm, r);
    }
}
pub proof fn lemma_cached_tier_all(req: VersionReq, cutoff: Option<NewestDependencyDate>, info: JsrPackageInfo, cached: Set<Version>, fm: Seq<VItem>)
    requires seq_is_registry(info, false, Some(cached), fm),
    ensures forall|r: ResolveVersionResult| #[trigger] rv_post(req, cutoff, fm, r) ==> cached_result(req, cutoff, info, cached, r),
{
    assert forall|r: ResolveVersionResult| #[trigger] rv_post(req, cutoff, fm, r) implies cached_result(req, cutoff, info, cached, r) by {
        lemma_cached_tier(req, cutoff, info, cached, fm, r);
    }
}
pub proof fn lemma_existing_tier_all(req: VersionReq, existing: Seq<&Version>, m: Seq<VItem>)
    requires
        m.len() == existing.len(),
        forall|i: int| 0 <= i < m.len() ==> #[trigger] m[i] == (existing[i], None::<&JsrPackageInfoVersion>),
    ensures forall|r: ResolveVersionResult| #[trigger] rv_post(req, None, m, r) ==> t1_result(req, existing, r),
{
    assert forall|r: ResolveVersionResult| #[trigger] rv_post(req, None, m, r) implies t1_result(req, existing, r) by {
        lemma_existing_tier(req, existing, m, r);
    }
}

} // verus!
