// Specification of the graph walk (ModuleEntryIterator), written from the statement of C15.
verus! {

/// the options a walk was started with (mirrors the iterator's option fields)
pub struct WOpts<'a> {
    pub follow_dynamic: bool,
    pub kind: GraphKind,
    pub check_js: CheckJsOption<'a>,
    pub prefer_fc: bool,
}

pub open spec fn inc_types(k: GraphKind) -> bool { k == GraphKind::All || k == GraphKind::TypesOnly }
pub open spec fn inc_code(k: GraphKind) -> bool { k == GraphKind::All || k == GraphKind::CodeOnly }

pub open spec fn cjs(c: CheckJsOption, s: Url) -> bool {
    match c {
        CheckJsOption::True => true,
        CheckJsOption::False => false,
        CheckJsOption::Custom(r) => r.resolve_spec(s),
    }
}

/// "can be type checked": typed media types always, JavaScript only when check-js says so
pub open spec fn checkable(c: CheckJsOption, s: Url, mt: MediaType) -> bool {
    match mt {
        MediaType::TypeScript | MediaType::Mts | MediaType::Cts | MediaType::Dts | MediaType::Dmts
        | MediaType::Dcts | MediaType::Tsx | MediaType::Json | MediaType::Wasm => true,
        MediaType::JavaScript | MediaType::Jsx | MediaType::Mjs | MediaType::Cjs => cjs(c, s),
        _ => false,
    }
}

pub open spec fn mod_specifier(m: Module) -> Url {
    match m {
        Module::Js(x) => x.specifier, Module::Json(x) => x.specifier, Module::Wasm(x) => x.specifier,
        Module::Npm(x) => x.specifier, Module::Node(x) => x.specifier, Module::External(x) => x.specifier,
    }
}
pub open spec fn mod_media_type(m: Module) -> MediaType {
    match m {
        Module::Js(x) => x.media_type, Module::Json(x) => x.media_type, Module::Wasm(_) => MediaType::Wasm,
        Module::Node(_) => MediaType::JavaScript, _ => MediaType::Unknown,
    }
}
/// the recorded dependencies of a module, in source order (modules without dependencies: none)
pub open spec fn mod_deps(m: Module) -> Seq<Dependency> {
    match m {
        Module::Js(x) => im_vals(x.dependencies),
        Module::Wasm(x) => im_vals(x.dependencies),
        _ => Seq::empty(),
    }
}
pub open spec fn js_fast_check_deps(x: JsModule) -> Option<Seq<Dependency>> {
    match x.fast_check {
        Some(FastCheckTypeModuleSlot::Module(fc)) => Some(im_vals(fc.dependencies)),
        _ => None,
    }
}
/// "fast-check dependencies preferred when requested"
pub open spec fn mod_deps_prefer_fc(m: Module) -> Seq<Dependency> {
    match m {
        Module::Js(x) => match js_fast_check_deps(x) { Some(d) => d, None => im_vals(x.dependencies) },
        Module::Wasm(x) => im_vals(x.dependencies),
        _ => Seq::empty(),
    }
}
pub open spec fn mod_dep_keys(m: Module) -> Seq<String> {
    match m {
        Module::Js(x) => im_keys(x.dependencies),
        Module::Wasm(x) => im_keys(x.dependencies),
        _ => Seq::empty(),
    }
}
pub open spec fn mod_dep_keys_prefer_fc(m: Module) -> Seq<String> {
    match m {
        Module::Js(x) => match x.fast_check {
            Some(FastCheckTypeModuleSlot::Module(fc)) => im_keys(fc.dependencies),
            _ => im_keys(x.dependencies),
        },
        Module::Wasm(x) => im_keys(x.dependencies),
        _ => Seq::empty(),
    }
}
pub open spec fn walk_deps(o: WOpts, m: Module) -> Seq<Dependency> {
    if inc_types(o.kind) && checkable(o.check_js, mod_specifier(m), mod_media_type(m)) && o.prefer_fc { mod_deps_prefer_fc(m) } else { mod_deps(m) }
}

/// one dependency contributes its resolved code target, and its resolved type target when types
/// are included; dynamic dependencies only when requested
pub open spec fn dep_followed(o: WOpts, d: Dependency) -> bool { !d.is_dynamic || o.follow_dynamic }
pub open spec fn dep_points_to(o: WOpts, d: Dependency, t: Url) -> bool {
    res_specifier(d.maybe_code) == Some(t) || (inc_types(o.kind) && res_specifier(d.maybe_type) == Some(t))
}
pub open spec fn is_dep_target(o: WOpts, deps: Seq<Dependency>, t: Url) -> bool {
    exists|i: int| 0 <= i < deps.len() && dep_followed(o, #[trigger] deps[i]) && dep_points_to(o, deps[i], t)
}

/// what the walk sees at a specifier
pub enum EntryV { Module(Module), Err(ModuleError), Redirect(Url), Nothing }

pub open spec fn entry_of(g: ModuleGraph, s: Url) -> EntryV {
    match slot_at(g, s) {
        Some(ModuleSlot::Module(m)) => EntryV::Module(m),
        Some(ModuleSlot::Err(e)) => EntryV::Err(e),
        Some(ModuleSlot::Pending { .. }) => EntryV::Nothing,
        None => match redirect_of(g, s) { Some(t) => EntryV::Redirect(t), None => EntryV::Nothing },
    }
}
pub open spec fn entry_val(e: ModuleEntryRef) -> EntryV {
    match e {
        ModuleEntryRef::Module(m) => EntryV::Module(*m),
        ModuleEntryRef::Err(x) => EntryV::Err(*x),
        ModuleEntryRef::Redirect(t) => EntryV::Redirect(*t),
    }
}
pub open spec fn opt_entry_val(e: Option<ModuleEntryRef>) -> EntryV {
    match e { Some(x) => entry_val(x), None => EntryV::Nothing }
}

/// "an untyped module replaced by its types dependency in types-only walks": in a types-only walk
/// a JS module that has a resolved types dependency, or that is not checkable, is not yielded
pub open spec fn substituted(o: WOpts, m: Module) -> bool {
    o.kind == GraphKind::TypesOnly && match m {
        Module::Js(x) => types_target(m) is Some || !checkable(o.check_js, x.specifier, x.media_type),
        _ => false,
    }
}
pub open spec fn yields(g: ModuleGraph, o: WOpts, s: Url) -> bool {
    match entry_of(g, s) {
        EntryV::Module(m) => !substituted(o, m),
        EntryV::Err(_) => true,
        EntryV::Redirect(_) => true,
        EntryV::Nothing => false,
    }
}
/// edge taken as soon as a specifier is taken from the queue: the types dependency of a JS module
pub open spec fn on_pop(g: ModuleGraph, o: WOpts, s: Url, t: Url) -> bool {
    match entry_of(g, s) {
        EntryV::Module(m) => m is Js && inc_types(o.kind) && types_target(m) == Some(t),
        _ => false,
    }
}
/// edges taken when a yielded entry is expanded (on the following `next()`)
pub open spec fn expands_to(o: WOpts, e: EntryV, t: Url) -> bool {
    match e {
        EntryV::Redirect(to) => to == t,
        EntryV::Module(m) => is_dep_target(o, walk_deps(o, m), t),
        _ => false,
    }
}
pub open spec fn edge(g: ModuleGraph, o: WOpts, a: Url, b: Url) -> bool {
    on_pop(g, o, a, b) || (yields(g, o, a) && expands_to(o, entry_of(g, a), b))
}
/// targets of the configured imports
pub open spec fn is_import_target(g: ModuleGraph, o: WOpts, t: Url) -> bool {
    exists|a: int, b: int| 0 <= a < im_vals(g.imports).len() && 0 <= b < im_vals(im_vals(g.imports)[a].dependencies).len()
        && dep_points_to(o, #[trigger] im_vals(im_vals(g.imports)[a].dependencies)[b], t)
}
pub open spec fn is_start(g: ModuleGraph, o: WOpts, roots: Seq<&Url>, t: Url) -> bool {
    (exists|i: int| 0 <= i < roots.len() && *(#[trigger] roots[i]) == t) || is_import_target(g, o, t)
}
pub open spec fn is_path(g: ModuleGraph, o: WOpts, roots: Seq<&Url>, p: Seq<Url>) -> bool {
    &&& p.len() > 0
    &&& is_start(g, o, roots, p[0])
    &&& forall|i: int| 0 <= i < p.len() - 1 ==> edge(g, o, #[trigger] p[i], p[i + 1])
}
/// "the set reachable from those roots and the configured imports through the graph's own recorded
/// dependencies under the chosen options"
pub open spec fn reach(g: ModuleGraph, o: WOpts, roots: Seq<&Url>, t: Url) -> bool {
    exists|p: Seq<Url>| is_path(g, o, roots, p) && #[trigger] p.last() == t
}

// ---- iterator state abstraction (over the exec fields; no ghost field is added to the struct)
pub open spec fn opts_of<'a, 'o>(it: ModuleEntryIterator<'a, 'o>) -> WOpts<'o> {
    WOpts { follow_dynamic: it.follow_dynamic, kind: it.kind, check_js: it.check_js, prefer_fc: it.prefer_fast_check_graph }
}
pub open spec fn is_seen(it: ModuleEntryIterator, t: Url) -> bool { it.seen@.contains(&t) }
pub open spec fn queued(it: ModuleEntryIterator, t: Url) -> bool {
    exists|i: int| 0 <= i < it.visiting@.len() && *(#[trigger] it.visiting@[i]) == t
}
/// taken from the queue already
pub open spec fn done(it: ModuleEntryIterator, t: Url) -> bool { is_seen(it, t) && !queued(it, t) }

/// representation invariant: the queue has no duplicates and holds only seen specifiers
pub open spec fn wf(it: ModuleEntryIterator) -> bool {
    &&& forall|i: int| 0 <= i < it.visiting@.len() ==> it.seen@.contains(#[trigger] it.visiting@[i])
    &&& forall|i: int, j: int| 0 <= i < j < it.visiting@.len() ==> *it.visiting@[i] != *it.visiting@[j]
}
pub open spec fn same_config(a: ModuleEntryIterator, b: ModuleEntryIterator) -> bool {
    a.graph == b.graph && a.follow_dynamic == b.follow_dynamic && a.kind == b.kind && a.check_js == b.check_js
        && a.prefer_fast_check_graph == b.prefer_fast_check_graph
}

/// effect of pushing the targets of `deps` (analyze_module_deps)
pub open spec fn pushed_deps(a: ModuleEntryIterator, b: ModuleEntryIterator, deps: Seq<Dependency>) -> bool {
    &&& same_config(a, b) && a.previous_module == b.previous_module
    &&& forall|t: Url| is_seen(b, t) <==> (is_seen(a, t) || is_dep_target(opts_of(a), deps, t))
    &&& forall|t: Url| queued(b, t) <==> (queued(a, t) || (is_seen(b, t) && !is_seen(a, t)))
}

/// `r` is closed under the walk's edges
pub open spec fn edge_closed(g: ModuleGraph, o: WOpts, r: spec_fn(Url) -> bool) -> bool {
    forall|x: Url, t: Url| r(x) && #[trigger] edge(g, o, x, t) ==> r(t)
}
/// everything seen in `y` lies in every edge-closed set that contains what was seen in `x`
/// (so nothing is seen "out of thin air": the seen set only grows along edges)
pub open spec fn grows_along_edges(g: ModuleGraph, o: WOpts, x: ModuleEntryIterator, y: ModuleEntryIterator) -> bool {
    forall|r: spec_fn(Url) -> bool| #[trigger] edge_closed(g, o, r) && (forall|t: Url| is_seen(x, t) ==> r(t))
        ==> (forall|t: Url| is_seen(y, t) ==> r(t))
}

/// the transition relation of one `next()` call, at the level of sets
pub open spec fn next_rel(a: ModuleEntryIterator, b: ModuleEntryIterator, r: Option<(&Url, ModuleEntryRef)>) -> bool {
    let g = *a.graph;
    let o = opts_of(a);
    let prev = opt_entry_val(a.previous_module);
    let newly_done = |p: Url| done(b, p) && !done(a, p);
    &&& same_config(a, b)
    // the seen set grows exactly by the expansion of the previously yielded entry and by the
    // types dependencies of what was taken from the queue
    &&& forall|t: Url| is_seen(b, t) <==> (is_seen(a, t) || expands_to(o, prev, t) || exists|p: Url| newly_done(p) && #[trigger] on_pop(g, o, p, t))
    // queue: only newly seen specifiers enter it; what was done stays done
    &&& forall|t: Url| queued(b, t) ==> (queued(a, t) || (is_seen(b, t) && !is_seen(a, t)))
    &&& forall|t: Url| done(a, t) ==> done(b, t)
    // ... and only along edges: any edge-closed set containing the old seen set and the expansion
    // of the previously yielded entry contains the new seen set
    &&& forall|r: spec_fn(Url) -> bool| #[trigger] edge_closed(g, o, r) && (forall|t: Url| is_seen(a, t) ==> r(t)) && (forall|t: Url| expands_to(o, prev, t) ==> r(t))
          ==> (forall|t: Url| is_seen(b, t) ==> r(t))
    // everything taken from the queue but not returned is something the walk does not yield
    &&& forall|p: Url| newly_done(p) && (r is None || *r.unwrap().0 != p) ==> !#[trigger] yields(g, o, p)
    &&& match r {
          Some((s, e)) => newly_done(*s) && yields(g, o, *s) && entry_val(e) == entry_of(g, *s) && b.previous_module == Some(e),
          None => b.visiting@.len() == 0 && b.previous_module is None,
        }
}

} // verus!
verus! {

pub open spec fn is_dep_target_upto(o: WOpts, deps: Seq<&Dependency>, n: int, t: Url) -> bool {
    exists|i: int| 0 <= i < n && i < deps.len() && dep_followed(o, *(#[trigger] deps[i])) && dep_points_to(o, *deps[i], t)
}
pub open spec fn res_targets_upto(rs: Seq<&Resolution>, n: int, t: Url) -> bool {
    exists|j: int| 0 <= j < n && j < rs.len() && res_specifier(*(#[trigger] rs[j])) == Some(t)
}
/// effect of pushing not-yet-seen targets characterised by `p`
pub open spec fn pushed(a: ModuleEntryIterator, b: ModuleEntryIterator, p: spec_fn(Url) -> bool) -> bool {
    &&& same_config(a, b) && a.previous_module == b.previous_module
    &&& forall|t: Url| is_seen(b, t) <==> (is_seen(a, t) || p(t))
    &&& forall|t: Url| queued(b, t) <==> (queued(a, t) || (is_seen(b, t) && !is_seen(a, t)))
}

/// one `if seen.insert(s) { visiting.push_front(s) }` step
pub proof fn lemma_push_step(a: ModuleEntryIterator, b: ModuleEntryIterator, s: &Url)
    requires
        wf(a), same_config(a, b), a.previous_module == b.previous_module,
        b.seen@ == a.seen@.insert(s),
        // queued anywhere (front, back, ...): the order of the queue is not part of the property
        a.seen@.contains(s) ==> b.visiting@ == a.visiting@,
        !a.seen@.contains(s) ==> exists|k: int| 0 <= k <= a.visiting@.len() && b.visiting@ == #[trigger] a.visiting@.insert(k, s),
    ensures
        wf(b),
        forall|t: Url| is_seen(b, t) <==> (is_seen(a, t) || t == *s),
        forall|t: Url| queued(b, t) <==> (queued(a, t) || (is_seen(b, t) && !is_seen(a, t))),
{
    if a.seen@.contains(s) {
        assert(b.seen@ =~= a.seen@);
    } else {
        let k = choose|k: int| 0 <= k <= a.visiting@.len() && b.visiting@ == #[trigger] a.visiting@.insert(k, s);
        let u = a.visiting@;
        let v = b.visiting@;
        assert(v.len() == u.len() + 1);
        assert(v[k] == s);
        assert forall|i: int| 0 <= i < v.len() && i != k implies #[trigger] v[i] == u[if i < k { i } else { i - 1 }] by {}
        assert forall|i: int| 0 <= i < v.len() implies b.seen@.contains(#[trigger] v[i]) by {
            if i != k { assert(v[i] == u[if i < k { i } else { i - 1 }]); }
        }
        assert forall|i: int, j: int| 0 <= i < j < v.len() implies *v[i] != *v[j] by {
            if i != k { assert(v[i] == u[if i < k { i } else { i - 1 }]); assert(a.seen@.contains(u[if i < k { i } else { i - 1 }])); }
            if j != k { assert(v[j] == u[if j < k { j } else { j - 1 }]); assert(a.seen@.contains(u[if j < k { j } else { j - 1 }])); }
        }
        assert forall|t: Url| queued(b, t) <==> (queued(a, t) || (is_seen(b, t) && !is_seen(a, t))) by {
            if queued(b, t) {
                let i = choose|i: int| 0 <= i < v.len() && *(#[trigger] v[i]) == t;
                if i != k { assert(*u[if i < k { i } else { i - 1 }] == t); }
            }
            if queued(a, t) {
                let i = choose|i: int| 0 <= i < u.len() && *(#[trigger] u[i]) == t;
                let i2 = if i < k { i } else { i + 1 };
                assert(v[i2] == u[i]);
                assert(*v[i2] == t);
            }
            if is_seen(b, t) && !is_seen(a, t) { assert(*v[k] == t); }
        }
    }
}

} // verus!
verus! {

/// taking the head of the queue
pub proof fn lemma_pop_step(a: ModuleEntryIterator, b: ModuleEntryIterator, p: &Url)
    requires
        wf(a), same_config(a, b), b.seen@ == a.seen@,
        // taken from anywhere in the queue (front, back, ...)
        exists|k: int| 0 <= k < a.visiting@.len() && p == a.visiting@[k] && b.visiting@ == #[trigger] a.visiting@.remove(k),
    ensures
        wf(b), done(b, *p), queued(a, *p),
        forall|t: Url| t != *p ==> (queued(b, t) <==> queued(a, t)),
        forall|t: Url| is_seen(b, t) <==> is_seen(a, t),
{
    let k = choose|k: int| 0 <= k < a.visiting@.len() && p == a.visiting@[k] && b.visiting@ == #[trigger] a.visiting@.remove(k);
    let v = a.visiting@;
    let w = b.visiting@;
    assert forall|i: int| 0 <= i < w.len() implies #[trigger] w[i] == v[if i < k { i } else { i + 1 }] by {}
    assert forall|i: int| 0 <= i < w.len() implies b.seen@.contains(#[trigger] w[i]) by { assert(w[i] == v[if i < k { i } else { i + 1 }]); }
    assert forall|i: int, j: int| 0 <= i < j < w.len() implies *w[i] != *w[j] by {
        assert(w[i] == v[if i < k { i } else { i + 1 }]); assert(w[j] == v[if j < k { j } else { j + 1 }]);
    }
    assert(a.seen@.contains(v[k]));
    if queued(b, *p) {
        let i = choose|i: int| 0 <= i < w.len() && *(#[trigger] w[i]) == *p;
        assert(w[i] == v[if i < k { i } else { i + 1 }]);
    }
    assert forall|t: Url| t != *p implies (queued(b, t) <==> queued(a, t)) by {
        if queued(b, t) { let i = choose|i: int| 0 <= i < w.len() && *(#[trigger] w[i]) == t; assert(*v[if i < k { i } else { i + 1 }] == t); }
        if queued(a, t) { let i = choose|i: int| 0 <= i < v.len() && *(#[trigger] v[i]) == t; assert(i != k); assert(*w[if i < k { i } else { i - 1 }] == t); }
    }
}

} // verus!
verus! {

/// the first phase of `next()`: the previously yielded entry (if any) is expanded
pub open spec fn expanded(a: ModuleEntryIterator, st1: ModuleEntryIterator) -> bool {
    let o = opts_of(a);
    &&& wf(st1) && same_config(a, st1) && st1.previous_module is None
    &&& forall|t: Url| is_seen(st1, t) <==> (is_seen(a, t) || expands_to(o, opt_entry_val(a.previous_module), t))
    &&& forall|t: Url| queued(st1, t) <==> (queued(a, t) || (is_seen(st1, t) && !is_seen(a, t)))
}
/// one iteration of the queue loop: `p` is taken from the queue, its types dependency is pushed
pub open spec fn step(g: ModuleGraph, o: WOpts, s0: ModuleEntryIterator, cur: ModuleEntryIterator, p: Url) -> bool {
    &&& wf(s0) && wf(cur) && same_config(s0, cur)
    &&& queued(s0, p) && done(cur, p)
    &&& forall|t: Url| is_seen(cur, t) <==> (is_seen(s0, t) || on_pop(g, o, p, t))
    &&& forall|t: Url| t != p ==> (queued(cur, t) <==> (queued(s0, t) || (is_seen(cur, t) && !is_seen(s0, t))))
}
/// loop invariant of the queue loop, relative to the state `st1` it started from
pub open spec fn loop_inv(g: ModuleGraph, o: WOpts, st1: ModuleEntryIterator, cur: ModuleEntryIterator) -> bool {
    &&& wf(cur) && same_config(st1, cur)
    &&& forall|t: Url| is_seen(cur, t) <==> (is_seen(st1, t) || exists|p: Url| done(cur, p) && !done(st1, p) && #[trigger] on_pop(g, o, p, t))
    &&& forall|t: Url| queued(cur, t) ==> (queued(st1, t) || (is_seen(cur, t) && !is_seen(st1, t)))
    &&& forall|t: Url| done(st1, t) ==> done(cur, t)
    &&& forall|p: Url| done(cur, p) && !done(st1, p) ==> !#[trigger] yields(g, o, p)
    &&& grows_along_edges(g, o, st1, cur)
}

pub proof fn lemma_loop_init(g: ModuleGraph, o: WOpts, st1: ModuleEntryIterator)
    requires wf(st1),
    ensures loop_inv(g, o, st1, st1),
{
}

pub proof fn lemma_loop_step(g: ModuleGraph, o: WOpts, st1: ModuleEntryIterator, s0: ModuleEntryIterator, cur: ModuleEntryIterator, p: Url)
    requires loop_inv(g, o, st1, s0), step(g, o, s0, cur, p), !yields(g, o, p),
    ensures loop_inv(g, o, st1, cur),
{
    assert(!done(st1, p)) by {
        if done(st1, p) { assert(done(s0, p)); }
    }
    assert forall|t: Url| is_seen(cur, t) <==> (is_seen(st1, t) || exists|q: Url| done(cur, q) && !done(st1, q) && #[trigger] on_pop(g, o, q, t)) by {
        if is_seen(cur, t) {
            if is_seen(s0, t) {
                if !is_seen(st1, t) {
                    let q = choose|q: Url| done(s0, q) && !done(st1, q) && #[trigger] on_pop(g, o, q, t);
                    assert(done(cur, q)) by { lemma_done_mono(g, o, s0, cur, p, q); }
                }
            } else {
                assert(on_pop(g, o, p, t));
            }
        }
        if exists|q: Url| done(cur, q) && !done(st1, q) && #[trigger] on_pop(g, o, q, t) {
            let q = choose|q: Url| done(cur, q) && !done(st1, q) && #[trigger] on_pop(g, o, q, t);
            if q == p { } else {
                assert(done(s0, q)) by { lemma_done_back(g, o, s0, cur, p, q); }
            }
        }
    }
    assert forall|t: Url| queued(cur, t) implies (queued(st1, t) || (is_seen(cur, t) && !is_seen(st1, t))) by {
        assert(t != p);
        if queued(s0, t) { } else { assert(is_seen(cur, t) && !is_seen(s0, t)); }
    }
    assert forall|t: Url| done(st1, t) implies done(cur, t) by {
        assert(done(s0, t));
        lemma_done_mono(g, o, s0, cur, p, t);
    }
    assert forall|q: Url| done(cur, q) && !done(st1, q) implies !#[trigger] yields(g, o, q) by {
        if q != p { lemma_done_back(g, o, s0, cur, p, q); }
    }
    lemma_step_grows(g, o, st1, s0, cur, p);
}
pub proof fn lemma_step_grows(g: ModuleGraph, o: WOpts, st1: ModuleEntryIterator, s0: ModuleEntryIterator, cur: ModuleEntryIterator, p: Url)
    requires grows_along_edges(g, o, st1, s0), step(g, o, s0, cur, p),
    ensures grows_along_edges(g, o, st1, cur),
{
    assert forall|r: spec_fn(Url) -> bool| #[trigger] edge_closed(g, o, r) && (forall|t: Url| is_seen(st1, t) ==> r(t))
        implies (forall|t: Url| is_seen(cur, t) ==> r(t)) by {
        assert forall|t: Url| is_seen(cur, t) implies r(t) by {
            if !is_seen(s0, t) {
                assert(on_pop(g, o, p, t));
                assert(edge(g, o, p, t));
                // p was queued, hence seen, hence in r
                let i = choose|i: int| 0 <= i < s0.visiting@.len() && *(#[trigger] s0.visiting@[i]) == p;
                assert(s0.seen@.contains(s0.visiting@[i]));
                assert(is_seen(s0, p));
                assert(r(p));
            }
        }
    }
}
pub proof fn lemma_done_mono(g: ModuleGraph, o: WOpts, s0: ModuleEntryIterator, cur: ModuleEntryIterator, p: Url, q: Url)
    requires step(g, o, s0, cur, p), done(s0, q),
    ensures done(cur, q),
{
    assert(q != p);
}
pub proof fn lemma_done_back(g: ModuleGraph, o: WOpts, s0: ModuleEntryIterator, cur: ModuleEntryIterator, p: Url, q: Url)
    requires step(g, o, s0, cur, p), done(cur, q), q != p,
    ensures done(s0, q),
{
    if !is_seen(s0, q) { assert(queued(cur, q)); }
}

/// `done` relative to the state before the expansion phase
pub proof fn lemma_expanded_done(a: ModuleEntryIterator, st1: ModuleEntryIterator, p: Url)
    requires wf(a), expanded(a, st1),
    ensures done(st1, p) <==> done(a, p),
{
    if done(a, p) { assert(!queued(st1, p)); }
    if done(st1, p) {
        if !is_seen(a, p) { assert(queued(st1, p)); }
    }
}

pub proof fn lemma_finish_none(a: ModuleEntryIterator, st1: ModuleEntryIterator, fin: ModuleEntryIterator)
    requires
        wf(a), expanded(a, st1), loop_inv(*a.graph, opts_of(a), st1, fin),
        fin.visiting@.len() == 0, fin.previous_module is None,
    ensures next_rel(a, fin, None),
{
    lemma_finish_common(a, st1, fin);
}
pub proof fn lemma_finish_some(a: ModuleEntryIterator, st1: ModuleEntryIterator, s0: ModuleEntryIterator, cur: ModuleEntryIterator, fin: ModuleEntryIterator, s: &Url, e: ModuleEntryRef)
    requires
        wf(a), expanded(a, st1), loop_inv(*a.graph, opts_of(a), st1, s0), step(*a.graph, opts_of(a), s0, cur, *s),
        yields(*a.graph, opts_of(a), *s), entry_val(e) == entry_of(*a.graph, *s),
        same_config(cur, fin), fin.seen == cur.seen, fin.visiting == cur.visiting, fin.previous_module == Some(e),
    ensures next_rel(a, fin, Some((s, e))), wf(fin),
{
    let g = *a.graph;
    let o = opts_of(a);
    // treat the yielded specifier like any other step for the set bookkeeping, except clause (D)
    assert(!done(st1, *s)) by { if done(st1, *s) { assert(done(s0, *s)); } }
    assert forall|t: Url| is_seen(fin, t) <==> (is_seen(st1, t) || exists|q: Url| done(fin, q) && !done(st1, q) && #[trigger] on_pop(g, o, q, t)) by {
        if is_seen(cur, t) {
            if is_seen(s0, t) {
                if !is_seen(st1, t) {
                    let q = choose|q: Url| done(s0, q) && !done(st1, q) && #[trigger] on_pop(g, o, q, t);
                    lemma_done_mono(g, o, s0, cur, *s, q);
                }
            } else { assert(on_pop(g, o, *s, t)); }
        }
        if exists|q: Url| done(fin, q) && !done(st1, q) && #[trigger] on_pop(g, o, q, t) {
            let q = choose|q: Url| done(fin, q) && !done(st1, q) && #[trigger] on_pop(g, o, q, t);
            if q != *s { lemma_done_back(g, o, s0, cur, *s, q); }
        }
    }
    assert forall|t: Url| queued(fin, t) implies (queued(st1, t) || (is_seen(fin, t) && !is_seen(st1, t))) by {
        assert(t != *s);
        if queued(s0, t) { } else { assert(is_seen(cur, t) && !is_seen(s0, t)); }
    }
    assert forall|t: Url| done(st1, t) implies done(fin, t) by { assert(done(s0, t)); lemma_done_mono(g, o, s0, cur, *s, t); }
    assert forall|q: Url| done(fin, q) && !done(st1, q) && q != *s implies !#[trigger] yields(g, o, q) by {
        lemma_done_back(g, o, s0, cur, *s, q);
    }
    lemma_step_grows(g, o, st1, s0, cur, *s);
    assert(grows_along_edges(g, o, st1, fin)) by {
        assert forall|r: spec_fn(Url) -> bool| #[trigger] edge_closed(g, o, r) && (forall|t: Url| is_seen(st1, t) ==> r(t))
            implies (forall|t: Url| is_seen(fin, t) ==> r(t)) by {
            assert forall|t: Url| is_seen(fin, t) implies r(t) by { assert(is_seen(cur, t)); }
        }
    }
    lemma_finish_glue(a, st1, fin, Some((s, e)));
}
proof fn lemma_finish_common(a: ModuleEntryIterator, st1: ModuleEntryIterator, fin: ModuleEntryIterator)
    requires
        wf(a), expanded(a, st1), loop_inv(*a.graph, opts_of(a), st1, fin),
        fin.visiting@.len() == 0, fin.previous_module is None,
    ensures next_rel(a, fin, None),
{
    lemma_finish_glue(a, st1, fin, None);
}
/// re-base the bookkeeping from `st1` (after expansion) to `a` (before the call)
proof fn lemma_finish_glue(a: ModuleEntryIterator, st1: ModuleEntryIterator, fin: ModuleEntryIterator, r: Option<(&Url, ModuleEntryRef)>)
    requires
        wf(a), expanded(a, st1), wf(fin), same_config(st1, fin),
        forall|t: Url| is_seen(fin, t) <==> (is_seen(st1, t) || exists|q: Url| done(fin, q) && !done(st1, q) && #[trigger] on_pop(*a.graph, opts_of(a), q, t)),
        forall|t: Url| queued(fin, t) ==> (queued(st1, t) || (is_seen(fin, t) && !is_seen(st1, t))),
        forall|t: Url| done(st1, t) ==> done(fin, t),
        grows_along_edges(*a.graph, opts_of(a), st1, fin),
        forall|q: Url| done(fin, q) && !done(st1, q) && (r is None || *r.unwrap().0 != q) ==> !#[trigger] yields(*a.graph, opts_of(a), q),
        match r {
            Some((s, e)) => done(fin, *s) && !done(st1, *s) && yields(*a.graph, opts_of(a), *s) && entry_val(e) == entry_of(*a.graph, *s) && fin.previous_module == Some(e),
            None => fin.visiting@.len() == 0 && fin.previous_module is None,
        },
    ensures next_rel(a, fin, r),
{
    let g = *a.graph;
    let o = opts_of(a);
    let prev = opt_entry_val(a.previous_module);
    assert forall|p: Url| (done(fin, p) && !done(a, p)) <==> (done(fin, p) && !done(st1, p)) by { lemma_expanded_done(a, st1, p); }
    assert forall|t: Url| is_seen(fin, t) <==> (is_seen(a, t) || expands_to(o, prev, t) || exists|p: Url| (done(fin, p) && !done(a, p)) && #[trigger] on_pop(g, o, p, t)) by {
        if exists|q: Url| done(fin, q) && !done(st1, q) && #[trigger] on_pop(g, o, q, t) {
            let q = choose|q: Url| done(fin, q) && !done(st1, q) && #[trigger] on_pop(g, o, q, t);
            lemma_expanded_done(a, st1, q);
        }
        if exists|p: Url| (done(fin, p) && !done(a, p)) && #[trigger] on_pop(g, o, p, t) {
            let q = choose|p: Url| (done(fin, p) && !done(a, p)) && #[trigger] on_pop(g, o, p, t);
            lemma_expanded_done(a, st1, q);
        }
    }
    assert forall|t: Url| queued(fin, t) implies (queued(a, t) || (is_seen(fin, t) && !is_seen(a, t))) by { }
    assert forall|t: Url| done(a, t) implies done(fin, t) by { lemma_expanded_done(a, st1, t); }
    assert forall|r2: spec_fn(Url) -> bool| #[trigger] edge_closed(g, o, r2) && (forall|t: Url| is_seen(a, t) ==> r2(t)) && (forall|t: Url| expands_to(o, prev, t) ==> r2(t))
        implies (forall|t: Url| is_seen(fin, t) ==> r2(t)) by {
        assert forall|t: Url| is_seen(st1, t) implies r2(t) by { }
    }
    assert forall|p: Url| (done(fin, p) && !done(a, p)) && (r is None || *r.unwrap().0 != p) implies !#[trigger] yields(g, o, p) by { lemma_expanded_done(a, st1, p); }
    match r { Some((s, e)) => { lemma_expanded_done(a, st1, *s); }, None => { } }
}

} // verus!
verus! {
/// `next_rel` and `wf` only look at the views of the collections
pub proof fn lemma_next_rel_views(a: ModuleEntryIterator, x: ModuleEntryIterator, y: ModuleEntryIterator, r: Option<(&Url, ModuleEntryRef)>)
    requires
        next_rel(a, x, r), wf(x),
        x.visiting@ == y.visiting@, x.seen@ == y.seen@, same_config(x, y), x.previous_module == y.previous_module,
    ensures next_rel(a, y, r), wf(y),
{
    assert forall|t: Url| (is_seen(x, t) <==> is_seen(y, t)) && (queued(x, t) <==> queued(y, t)) && (done(x, t) <==> done(y, t)) by { }
    let g = *a.graph;
    let o = opts_of(a);
    let prev = opt_entry_val(a.previous_module);
    assert forall|t: Url| is_seen(y, t) <==> (is_seen(a, t) || expands_to(o, prev, t) || exists|p: Url| (done(y, p) && !done(a, p)) && #[trigger] on_pop(g, o, p, t)) by {
        assert(is_seen(x, t) <==> (is_seen(a, t) || expands_to(o, prev, t) || exists|p: Url| (done(x, p) && !done(a, p)) && #[trigger] on_pop(g, o, p, t)));
        if exists|p: Url| (done(x, p) && !done(a, p)) && #[trigger] on_pop(g, o, p, t) {
            let p = choose|p: Url| (done(x, p) && !done(a, p)) && #[trigger] on_pop(g, o, p, t);
            assert(done(y, p));
        }
        if exists|p: Url| (done(y, p) && !done(a, p)) && #[trigger] on_pop(g, o, p, t) {
            let p = choose|p: Url| (done(y, p) && !done(a, p)) && #[trigger] on_pop(g, o, p, t);
            assert(done(x, p));
        }
    }
    assert forall|r2: spec_fn(Url) -> bool| #[trigger] edge_closed(g, o, r2) && (forall|t: Url| is_seen(a, t) ==> r2(t)) && (forall|t: Url| expands_to(o, prev, t) ==> r2(t))
        implies (forall|t: Url| is_seen(y, t) ==> r2(t)) by {
        assert forall|t: Url| is_seen(y, t) implies r2(t) by { assert(is_seen(x, t)); }
    }
}
} // verus!
verus! {
pub open spec fn wopts(w: WalkOptions) -> WOpts {
    WOpts { follow_dynamic: w.follow_dynamic, kind: w.kind, check_js: w.check_js, prefer_fc: w.prefer_fast_check_graph }
}
/// the state a walk starts in: exactly the roots and the targets of the configured imports are
/// seen and queued, nothing is pending expansion
pub open spec fn init_state(g: ModuleGraph, w: WalkOptions, roots: Seq<&Url>, it: ModuleEntryIterator) -> bool {
    &&& *it.graph == g && opts_of(it) == wopts(w) && it.previous_module is None
    &&& forall|t: Url| is_seen(it, t) <==> is_start(g, wopts(w), roots, t)
    &&& forall|t: Url| queued(it, t) <==> is_seen(it, t)
}
} // verus!
verus! {
/// the iterator value `new()` is about to build from its locals
pub open spec fn mk<'a, 'o>(graph: &'a ModuleGraph, seen: HashSet<&'a Url>, visiting: VecDeque<&'a Url>, w: WalkOptions<'o>) -> ModuleEntryIterator<'a, 'o> {
    ModuleEntryIterator {
        graph, seen, visiting, follow_dynamic: w.follow_dynamic, kind: w.kind, check_js: w.check_js,
        prefer_fast_check_graph: w.prefer_fast_check_graph, previous_module: None,
    }
}
pub open spec fn import_target_upto(o: WOpts, all: Seq<(&String, &Dependency)>, n: int, t: Url) -> bool {
    exists|i: int| 0 <= i < n && i < all.len() && dep_points_to(o, *(#[trigger] all[i]).1, t)
}
} // verus!
// ---- C15 as theorems over the contracts of new()/next()
verus! {

pub open spec fn is_pending(it: ModuleEntryIterator, x: Url) -> bool {
    it.previous_module is Some && entry_val(it.previous_module.unwrap()) == entry_of(*it.graph, x)
}
/// the global invariant of a walk started from `roots`
pub open spec fn winv(it: ModuleEntryIterator, roots: Seq<&Url>) -> bool {
    let g = *it.graph;
    let o = opts_of(it);
    &&& wf(it)
    &&& forall|t: Url| is_start(g, o, roots, t) ==> is_seen(it, t)
    &&& forall|t: Url| is_seen(it, t) ==> reach(g, o, roots, t)
    &&& it.previous_module is Some ==> exists|x: Url| done(it, x) && #[trigger] yields(g, o, x) && is_pending(it, x)
    &&& forall|x: Url, t: Url| done(it, x) && #[trigger] on_pop(g, o, x, t) ==> is_seen(it, t)
    &&& forall|x: Url, t: Url| done(it, x) && yields(g, o, x) && !is_pending(it, x) && #[trigger] expands_to(o, entry_of(g, x), t) && expands_from(g, x, t) ==> is_seen(it, t)
}
/// (trigger helper: names the source of an expansion edge)
pub open spec fn expands_from(g: ModuleGraph, x: Url, t: Url) -> bool { true }

pub proof fn lemma_reach_start(g: ModuleGraph, o: WOpts, roots: Seq<&Url>, t: Url)
    requires is_start(g, o, roots, t),
    ensures reach(g, o, roots, t),
{
    let p = seq![t];
    assert(is_path(g, o, roots, p));
    assert(p.last() == t);
}
pub proof fn lemma_reach_edge(g: ModuleGraph, o: WOpts, roots: Seq<&Url>, x: Url, t: Url)
    requires reach(g, o, roots, x), edge(g, o, x, t),
    ensures reach(g, o, roots, t),
{
    let p = choose|p: Seq<Url>| is_path(g, o, roots, p) && #[trigger] p.last() == x;
    let q = p.push(t);
    assert forall|i: int| 0 <= i < q.len() - 1 implies edge(g, o, #[trigger] q[i], q[i + 1]) by {
        if i < p.len() - 1 { assert(q[i] == p[i] && q[i + 1] == p[i + 1]); } else { assert(q[i] == x && q[i + 1] == t); }
    }
    assert(q[0] == p[0]);
    assert(is_path(g, o, roots, q));
    assert(q.last() == t);
}
pub proof fn lemma_reach_closed(g: ModuleGraph, o: WOpts, roots: Seq<&Url>)
    ensures edge_closed(g, o, |t: Url| reach(g, o, roots, t)),
{
    let r = |t: Url| reach(g, o, roots, t);
    assert forall|x: Url, t: Url| r(x) && #[trigger] edge(g, o, x, t) implies r(t) by { lemma_reach_edge(g, o, roots, x, t); }
}

/// C15 (start): the state built by `new()` satisfies the invariant
pub proof fn lemma_inv_init(g: ModuleGraph, w: WalkOptions, roots: Seq<&Url>, it: ModuleEntryIterator)
    requires init_state(g, w, roots, it), wf(it),
    ensures winv(it, roots),
{
    assert forall|t: Url| is_seen(it, t) implies reach(g, wopts(w), roots, t) by { lemma_reach_start(g, wopts(w), roots, t); }
}

/// C15 (step): every `next()` preserves it
pub proof fn lemma_inv_step(a: ModuleEntryIterator, b: ModuleEntryIterator, r: Option<(&Url, ModuleEntryRef)>, roots: Seq<&Url>)
    requires winv(a, roots), next_rel(a, b, r), wf(b),
    ensures winv(b, roots),
{
    let g = *a.graph;
    let o = opts_of(a);
    let prev = opt_entry_val(a.previous_module);
    let rr = |t: Url| reach(g, o, roots, t);
    lemma_reach_closed(g, o, roots);
    assert forall|t: Url| expands_to(o, prev, t) implies rr(t) by {
        let x = choose|x: Url| done(a, x) && #[trigger] yields(g, o, x) && is_pending(a, x);
        assert(edge(g, o, x, t));
        lemma_reach_edge(g, o, roots, x, t);
    }
    assert(forall|t: Url| is_seen(a, t) ==> rr(t));
    assert(edge_closed(g, o, rr));
    assert forall|t: Url| is_seen(b, t) implies reach(g, o, roots, t) by { assert(rr(t)); }
    match r {
        Some((s, e)) => { assert(done(b, *s) && yields(g, o, *s) && is_pending(b, *s)); },
        None => { },
    }
    assert forall|x: Url, t: Url| done(b, x) && #[trigger] on_pop(g, o, x, t) implies is_seen(b, t) by {
        if done(a, x) { assert(is_seen(a, t)); }
    }
    assert forall|x: Url, t: Url| done(b, x) && yields(g, o, x) && !is_pending(b, x) && #[trigger] expands_to(o, entry_of(g, x), t) && expands_from(g, x, t) implies is_seen(b, t) by {
        if done(a, x) {
            if is_pending(a, x) { assert(expands_to(o, prev, t)); } else { assert(expands_from(g, x, t)); assert(is_seen(a, t)); }
        } else {
            // newly done and yielded: it is the returned one, hence pending in b
            assert(r is Some && *r.unwrap().0 == x);
        }
    }
}

/// C15 (completeness): when the walk is exhausted everything reachable has been seen and taken
pub proof fn lemma_exhausted(b: ModuleEntryIterator, roots: Seq<&Url>, t: Url)
    requires winv(b, roots), b.visiting@.len() == 0, b.previous_module is None, reach(*b.graph, opts_of(b), roots, t),
    ensures is_seen(b, t) && done(b, t),
{
    let g = *b.graph;
    let o = opts_of(b);
    let p = choose|p: Seq<Url>| is_path(g, o, roots, p) && #[trigger] p.last() == t;
    lemma_path_seen(b, roots, p, (p.len() - 1) as int);
}
proof fn lemma_path_seen(b: ModuleEntryIterator, roots: Seq<&Url>, p: Seq<Url>, k: int)
    requires winv(b, roots), b.visiting@.len() == 0, b.previous_module is None, is_path(*b.graph, opts_of(b), roots, p), 0 <= k < p.len(),
    ensures is_seen(b, p[k]) && done(b, p[k]),
    decreases k,
{
    let g = *b.graph;
    let o = opts_of(b);
    if k == 0 { } else {
        lemma_path_seen(b, roots, p, k - 1);
        let x = p[k - 1];
        assert(edge(g, o, x, p[k]));
        if on_pop(g, o, x, p[k]) { } else { assert(expands_from(g, x, p[k])); }
    }
}

// ---- traces
pub struct WalkTrace<'a, 'o> {
    pub states: Seq<ModuleEntryIterator<'a, 'o>>,
    pub results: Seq<Option<(&'a Url, ModuleEntryRef<'a>)>>,
}
/// a run of the iterator: new(), then any number of next() calls (no skip_previous_dependencies)
pub open spec fn is_trace(g: ModuleGraph, w: WalkOptions, roots: Seq<&Url>, tr: WalkTrace) -> bool {
    &&& tr.states.len() == tr.results.len() + 1
    &&& init_state(g, w, roots, tr.states[0]) && wf(tr.states[0])
    &&& forall|i: int| 0 <= i < tr.results.len() ==> next_rel(#[trigger] tr.states[i], tr.states[i + 1], tr.results[i]) && wf(tr.states[i + 1])
}
pub open spec fn returned_before(tr: WalkTrace, k: int, x: Url) -> bool {
    exists|i: int| 0 <= i < k && i < tr.results.len() && (#[trigger] tr.results[i]) is Some && *tr.results[i].unwrap().0 == x
}

pub proof fn lemma_trace_inv(g: ModuleGraph, w: WalkOptions, roots: Seq<&Url>, tr: WalkTrace, k: int)
    requires is_trace(g, w, roots, tr), 0 <= k < tr.states.len(),
    ensures
        winv(tr.states[k], roots), *tr.states[k].graph == g, opts_of(tr.states[k]) == wopts(w),
        // everything taken from the queue so far that the walk yields has been returned
        forall|x: Url| done(tr.states[k], x) && yields(g, wopts(w), x) ==> #[trigger] returned_before(tr, k, x),
    decreases k,
{
    if k == 0 {
        lemma_inv_init(g, w, roots, tr.states[0]);
    } else {
        lemma_trace_inv(g, w, roots, tr, k - 1);
        let a = tr.states[k - 1];
        let b = tr.states[k];
        assert(next_rel(a, b, tr.results[k - 1]));
        lemma_inv_step(a, b, tr.results[k - 1], roots);
        assert forall|x: Url| done(b, x) && yields(g, wopts(w), x) implies #[trigger] returned_before(tr, k, x) by {
            if done(a, x) {
                assert(returned_before(tr, k - 1, x));
                let i = choose|i: int| 0 <= i < k - 1 && i < tr.results.len() && (#[trigger] tr.results[i]) is Some && *tr.results[i].unwrap().0 == x;
                assert(0 <= i < k);
            } else {
                assert(tr.results[k - 1] is Some && *tr.results[k - 1].unwrap().0 == x);
            }
        }
    }
}
proof fn lemma_done_mono_trace(g: ModuleGraph, w: WalkOptions, roots: Seq<&Url>, tr: WalkTrace, i: int, j: int, x: Url)
    requires is_trace(g, w, roots, tr), 0 <= i <= j < tr.states.len(), done(tr.states[i], x),
    ensures done(tr.states[j], x),
    decreases j - i,
{
    if i < j {
        assert(next_rel(tr.states[i], tr.states[i + 1], tr.results[i]));
        lemma_done_mono_trace(g, w, roots, tr, i + 1, j, x);
    }
}

/// C15: "yields each specifier at most once"
pub proof fn theorem_yield_at_most_once(g: ModuleGraph, w: WalkOptions, roots: Seq<&Url>, tr: WalkTrace, i: int, j: int)
    requires is_trace(g, w, roots, tr), 0 <= i < j < tr.results.len(), tr.results[i] is Some, tr.results[j] is Some,
    ensures *tr.results[i].unwrap().0 != *tr.results[j].unwrap().0, // [yield_at_most_once]
{
    let x = *tr.results[i].unwrap().0;
    assert(next_rel(tr.states[i], tr.states[i + 1], tr.results[i]));
    assert(done(tr.states[i + 1], x));
    lemma_done_mono_trace(g, w, roots, tr, i + 1, j, x);
    assert(next_rel(tr.states[j], tr.states[j + 1], tr.results[j]));
}

/// C15: "yields exactly the set reachable ..." (soundness): whatever is returned is reachable under
/// the options, is an entry the options say to yield, and is the graph's own entry for it
pub proof fn theorem_yields_only_reachable(g: ModuleGraph, w: WalkOptions, roots: Seq<&Url>, tr: WalkTrace, i: int)
    requires is_trace(g, w, roots, tr), 0 <= i < tr.results.len(), tr.results[i] is Some,
    ensures
        reach(g, wopts(w), roots, *tr.results[i].unwrap().0), // [yields_only_reachable]
        yields(g, wopts(w), *tr.results[i].unwrap().0),
        entry_val(tr.results[i].unwrap().1) == entry_of(g, *tr.results[i].unwrap().0),
{
    lemma_trace_inv(g, w, roots, tr, i);
    lemma_trace_inv(g, w, roots, tr, i + 1);
    assert(next_rel(tr.states[i], tr.states[i + 1], tr.results[i]));
    assert(is_seen(tr.states[i + 1], *tr.results[i].unwrap().0));
}

/// C15: "... and yields exactly that set" (completeness): once next() has answered None, every
/// reachable specifier whose entry the options say to yield has been returned
pub proof fn theorem_exhaustion_yields_all_reachable(g: ModuleGraph, w: WalkOptions, roots: Seq<&Url>, tr: WalkTrace, t: Url)
    requires
        is_trace(g, w, roots, tr), tr.results.len() > 0, tr.results.last() is None,
        reach(g, wopts(w), roots, t), yields(g, wopts(w), t),
    ensures returned_before(tr, tr.results.len() as int, t), // [exhaustion_yields_all_reachable]
{
    let n = tr.results.len() as int;
    lemma_trace_inv(g, w, roots, tr, n);
    let b = tr.states[n];
    assert(next_rel(tr.states[n - 1], b, tr.results[n - 1]));
    lemma_exhausted(b, roots, t);
}

} // verus!
verus! {
/// front or back: `VecDeque::push_front` / `push_back`
pub proof fn lemma_push_ends(a: ModuleEntryIterator, b: ModuleEntryIterator, s: &Url)
    requires
        wf(a), same_config(a, b), a.previous_module == b.previous_module,
        b.seen@ == a.seen@.insert(s),
        a.seen@.contains(s) ==> b.visiting@ == a.visiting@,
        !a.seen@.contains(s) ==> (b.visiting@ == seq![s] + a.visiting@ || b.visiting@ == a.visiting@.push(s)),
    ensures
        wf(b),
        forall|t: Url| is_seen(b, t) <==> (is_seen(a, t) || t == *s),
        forall|t: Url| queued(b, t) <==> (queued(a, t) || (is_seen(b, t) && !is_seen(a, t))),
{
    if !a.seen@.contains(s) {
        if b.visiting@ == seq![s] + a.visiting@ {
            assert(b.visiting@ =~= a.visiting@.insert(0, s));
        } else {
            assert(b.visiting@ =~= a.visiting@.insert(a.visiting@.len() as int, s));
        }
    }
    lemma_push_step(a, b, s);
}
/// front or back: `VecDeque::pop_front` / `pop_back`
pub proof fn lemma_pop_ends(a: ModuleEntryIterator, b: ModuleEntryIterator, p: &Url)
    requires
        wf(a), same_config(a, b), b.seen@ == a.seen@, a.visiting@.len() > 0,
        (p == a.visiting@[0] && b.visiting@ == a.visiting@.subrange(1, a.visiting@.len() as int))
          || (p == a.visiting@[a.visiting@.len() - 1] && b.visiting@ == a.visiting@.subrange(0, a.visiting@.len() - 1)),
    ensures
        wf(b), done(b, *p), queued(a, *p),
        forall|t: Url| t != *p ==> (queued(b, t) <==> queued(a, t)),
        forall|t: Url| is_seen(b, t) <==> is_seen(a, t),
{
    if p == a.visiting@[0] && b.visiting@ == a.visiting@.subrange(1, a.visiting@.len() as int) {
        assert(b.visiting@ =~= a.visiting@.remove(0));
    } else {
        assert(b.visiting@ =~= a.visiting@.remove(a.visiting@.len() - 1));
    }
    lemma_pop_step(a, b, p);
}
} // verus!
verus! {
/// a run of consecutive next() calls (witness chain used by the consumers of the walk)
pub open spec fn is_chain(sts: Seq<ModuleEntryIterator>, rss: Seq<Option<(&Url, ModuleEntryRef)>>) -> bool {
    &&& sts.len() == rss.len() + 1
    &&& forall|i: int| 0 <= i < rss.len() ==> next_rel(#[trigger] sts[i], sts[i + 1], rss[i]) && wf(sts[i + 1])
}
pub proof fn lemma_chain_push(sts: Seq<ModuleEntryIterator>, rss: Seq<Option<(&Url, ModuleEntryRef)>>, nxt: ModuleEntryIterator, r: Option<(&Url, ModuleEntryRef)>)
    requires is_chain(sts, rss), next_rel(sts.last(), nxt, r), wf(nxt),
    ensures is_chain(sts.push(nxt), rss.push(r)), sts.push(nxt).last() == nxt, sts.push(nxt)[0] == sts[0],
{
    let s2 = sts.push(nxt);
    let r2 = rss.push(r);
    assert forall|i: int| 0 <= i < r2.len() implies next_rel(#[trigger] s2[i], s2[i + 1], r2[i]) && wf(s2[i + 1]) by {
        if i < rss.len() { assert(s2[i] == sts[i] && s2[i + 1] == sts[i + 1] && r2[i] == rss[i]); }
        else { assert(s2[i] == sts.last() && s2[i + 1] == nxt && r2[i] == r); }
    }
}
pub proof fn lemma_next_rel_config(a: ModuleEntryIterator, b: ModuleEntryIterator, r: Option<(&Url, ModuleEntryRef)>)
    requires next_rel(a, b, r),
    ensures same_config(a, b), *b.graph == *a.graph, opts_of(b) == opts_of(a),
{
}
} // verus!
