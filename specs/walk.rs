// Specification of the graph walk (ModuleEntryIterator), written from the statement of C15.
verus! {

/// the options a walk was started with (mirrors the iterator's option fields)
pub struct WOpts<'a> {
    pub follow_dynamic: bool,
    pub kind: GraphKind,
    pub check_js: CheckJsOption<'a>,
    pub prefer_fc: bool,
}

pub open spec fn inc_types(k: GraphKind) -> bool { k == GraphKind::All || k == GraphKind::TypesOnly }
pub open spec fn inc_code(k: GraphKind) -> bool { k == GraphKind::All || k == GraphKind::CodeOnly }

pub open spec fn cjs(c: CheckJsOption, s: Url) -> bool {
    match c {
        CheckJsOption::True => true,
        CheckJsOption::False => false,
        CheckJsOption::Custom(r) => r.resolve_spec(s),
    }
}

/// "can be type checked": typed media types always, JavaScript only when check-js says so
pub open spec fn checkable(c: CheckJsOption, s: Url, mt: MediaType) -> bool {
    match mt {
        MediaType::TypeScript | MediaType::Mts | MediaType::Cts | MediaType::Dts | MediaType::Dmts
        | MediaType::Dcts | MediaType::Tsx | MediaType::Json | MediaType::Wasm => true,
        MediaType::JavaScript | MediaType::Jsx | MediaType::Mjs | MediaType::Cjs => cjs(c, s),
        _ => false,
    }
}

pub open spec fn mod_specifier(m: Module) -> Url {
    match m {
        Module::Js(x) => x.specifier, Module::Json(x) => x.specifier, Module::Wasm(x) => x.specifier,
        Module::Npm(x) => x.specifier, Module::Node(x) => x.specifier, Module::External(x) => x.specifier,
    }
}
pub open spec fn mod_media_type(m: Module) -> MediaType {
    match m {
        Module::Js(x) => x.media_type, Module::Json(x) => x.media_type, Module::Wasm(_) => MediaType::Wasm,
        Module::Node(_) => MediaType::JavaScript, _ => MediaType::Unknown,
    }
}
/// the recorded dependencies of a module, in source order (modules without dependencies: none)
pub open spec fn mod_deps(m: Module) -> Seq<Dependency> {
    match m {
        Module::Js(x) => im_vals(x.dependencies),
        Module::Wasm(x) => im_vals(x.dependencies),
        _ => Seq::empty(),
    }
}
pub open spec fn js_fast_check_deps(x: JsModule) -> Option<Seq<Dependency>> {
    match x.fast_check {
        Some(FastCheckTypeModuleSlot::Module(fc)) => Some(im_vals(fc.dependencies)),
        _ => None,
    }
}
/// "fast-check dependencies preferred when requested"
pub open spec fn mod_deps_prefer_fc(m: Module) -> Seq<Dependency> {
    match m {
        Module::Js(x) => match js_fast_check_deps(x) { Some(d) => d, None => im_vals(x.dependencies) },
        Module::Wasm(x) => im_vals(x.dependencies),
        _ => Seq::empty(),
    }
}
pub open spec fn walk_deps(o: WOpts, m: Module) -> Seq<Dependency> {
    if inc_types(o.kind) && checkable(o.check_js, mod_specifier(m), mod_media_type(m)) && o.prefer_fc { mod_deps_prefer_fc(m) } else { mod_deps(m) }
}

/// one dependency contributes its resolved code target, and its resolved type target when types
/// are included; dynamic dependencies only when requested
pub open spec fn dep_followed(o: WOpts, d: Dependency) -> bool { !d.is_dynamic || o.follow_dynamic }
pub open spec fn dep_points_to(o: WOpts, d: Dependency, t: Url) -> bool {
    res_specifier(d.maybe_code) == Some(t) || (inc_types(o.kind) && res_specifier(d.maybe_type) == Some(t))
}
pub open spec fn is_dep_target(o: WOpts, deps: Seq<Dependency>, t: Url) -> bool {
    exists|i: int| 0 <= i < deps.len() && dep_followed(o, #[trigger] deps[i]) && dep_points_to(o, deps[i], t)
}

/// what the walk sees at a specifier
pub enum EntryV { Module(Module), Err(ModuleError), Redirect(Url), Nothing }

pub open spec fn entry_of(g: ModuleGraph, s: Url) -> EntryV {
    match slot_at(g, s) {
        Some(ModuleSlot::Module(m)) => EntryV::Module(m),
        Some(ModuleSlot::Err(e)) => EntryV::Err(e),
        Some(ModuleSlot::Pending { .. }) => EntryV::Nothing,
        None => match redirect_of(g, s) { Some(t) => EntryV::Redirect(t), None => EntryV::Nothing },
    }
}
pub open spec fn entry_val(e: ModuleEntryRef) -> EntryV {
    match e {
        ModuleEntryRef::Module(m) => EntryV::Module(*m),
        ModuleEntryRef::Err(x) => EntryV::Err(*x),
        ModuleEntryRef::Redirect(t) => EntryV::Redirect(*t),
    }
}
pub open spec fn opt_entry_val(e: Option<ModuleEntryRef>) -> EntryV {
    match e { Some(x) => entry_val(x), None => EntryV::Nothing }
}

/// "an untyped module replaced by its types dependency in types-only walks": in a types-only walk
/// a JS module that has a resolved types dependency, or that is not checkable, is not yielded
pub open spec fn substituted(o: WOpts, m: Module) -> bool {
    o.kind == GraphKind::TypesOnly && match m {
        Module::Js(x) => types_target(m) is Some || !checkable(o.check_js, x.specifier, x.media_type),
        _ => false,
    }
}
pub open spec fn yields(g: ModuleGraph, o: WOpts, s: Url) -> bool {
    match entry_of(g, s) {
        EntryV::Module(m) => !substituted(o, m),
        EntryV::Err(_) => true,
        EntryV::Redirect(_) => true,
        EntryV::Nothing => false,
    }
}
/// edge taken as soon as a specifier is taken from the queue: the types dependency of a JS module
pub open spec fn on_pop(g: ModuleGraph, o: WOpts, s: Url, t: Url) -> bool {
    match entry_of(g, s) {
        EntryV::Module(m) => m is Js && inc_types(o.kind) && types_target(m) == Some(t),
        _ => false,
    }
}
/// edges taken when a yielded entry is expanded (on the following `next()`)
pub open spec fn expands_to(o: WOpts, e: EntryV, t: Url) -> bool {
    match e {
        EntryV::Redirect(to) => to == t,
        EntryV::Module(m) => is_dep_target(o, walk_deps(o, m), t),
        _ => false,
    }
}
pub open spec fn edge(g: ModuleGraph, o: WOpts, a: Url, b: Url) -> bool {
    on_pop(g, o, a, b) || (yields(g, o, a) && expands_to(o, entry_of(g, a), b))
}
/// targets of the configured imports
pub open spec fn is_import_target(g: ModuleGraph, o: WOpts, t: Url) -> bool {
    exists|a: int, b: int| 0 <= a < im_vals(g.imports).len() && 0 <= b < im_vals(im_vals(g.imports)[a].dependencies).len()
        && dep_points_to(o, #[trigger] im_vals(im_vals(g.imports)[a].dependencies)[b], t)
}
pub open spec fn is_start(g: ModuleGraph, o: WOpts, roots: Seq<&Url>, t: Url) -> bool {
    (exists|i: int| 0 <= i < roots.len() && *(#[trigger] roots[i]) == t) || is_import_target(g, o, t)
}
pub open spec fn is_path(g: ModuleGraph, o: WOpts, roots: Seq<&Url>, p: Seq<Url>) -> bool {
    &&& p.len() > 0
    &&& is_start(g, o, roots, p[0])
    &&& forall|i: int| 0 <= i < p.len() - 1 ==> edge(g, o, #[trigger] p[i], p[i + 1])
}
/// "the set reachable from those roots and the configured imports through the graph's own recorded
/// dependencies under the chosen options"
pub open spec fn reach(g: ModuleGraph, o: WOpts, roots: Seq<&Url>, t: Url) -> bool {
    exists|p: Seq<Url>| is_path(g, o, roots, p) && #[trigger] p.last() == t
}

// ---- iterator state abstraction (over the exec fields; no ghost field is added to the struct)
pub open spec fn opts_of<'a, 'o>(it: ModuleEntryIterator<'a, 'o>) -> WOpts<'o> {
    WOpts { follow_dynamic: it.follow_dynamic, kind: it.kind, check_js: it.check_js, prefer_fc: it.prefer_fast_check_graph }
}
pub open spec fn seen(it: ModuleEntryIterator, t: Url) -> bool { it.seen@.contains(&t) }
pub open spec fn queued(it: ModuleEntryIterator, t: Url) -> bool {
    exists|i: int| 0 <= i < it.visiting@.len() && *(#[trigger] it.visiting@[i]) == t
}
/// taken from the queue already
pub open spec fn done(it: ModuleEntryIterator, t: Url) -> bool { seen(it, t) && !queued(it, t) }

/// representation invariant: the queue has no duplicates and holds only seen specifiers
pub open spec fn wf(it: ModuleEntryIterator) -> bool {
    &&& forall|i: int| 0 <= i < it.visiting@.len() ==> it.seen@.contains(#[trigger] it.visiting@[i])
    &&& forall|i: int, j: int| 0 <= i < j < it.visiting@.len() ==> *it.visiting@[i] != *it.visiting@[j]
}
pub open spec fn same_config(a: ModuleEntryIterator, b: ModuleEntryIterator) -> bool {
    a.graph == b.graph && a.follow_dynamic == b.follow_dynamic && a.kind == b.kind && a.check_js == b.check_js
        && a.prefer_fast_check_graph == b.prefer_fast_check_graph
}

/// effect of pushing the targets of `deps` (analyze_module_deps)
pub open spec fn pushed_deps(a: ModuleEntryIterator, b: ModuleEntryIterator, deps: Seq<Dependency>) -> bool {
    &&& same_config(a, b) && a.previous_module == b.previous_module
    &&& forall|t: Url| seen(b, t) <==> (seen(a, t) || is_dep_target(opts_of(a), deps, t))
    &&& forall|t: Url| queued(b, t) <==> (queued(a, t) || (seen(b, t) && !seen(a, t)))
}

/// the transition relation of one `next()` call, at the level of sets
pub open spec fn next_rel(a: ModuleEntryIterator, b: ModuleEntryIterator, r: Option<(&Url, ModuleEntryRef)>) -> bool {
    let g = *a.graph;
    let o = opts_of(a);
    let prev = opt_entry_val(a.previous_module);
    let newly_done = |p: Url| done(b, p) && !done(a, p);
    &&& same_config(a, b)
    // the seen set grows exactly by the expansion of the previously yielded entry and by the
    // types dependencies of what was taken from the queue
    &&& forall|t: Url| seen(b, t) <==> (seen(a, t) || expands_to(o, prev, t) || exists|p: Url| newly_done(p) && #[trigger] on_pop(g, o, p, t))
    // queue: only newly seen specifiers enter it; what was done stays done
    &&& forall|t: Url| queued(b, t) ==> (queued(a, t) || (seen(b, t) && !seen(a, t)))
    &&& forall|t: Url| done(a, t) ==> done(b, t)
    // everything taken from the queue but not returned is something the walk does not yield
    &&& forall|p: Url| newly_done(p) && (r is None || *r.unwrap().0 != p) ==> !#[trigger] yields(g, o, p)
    &&& match r {
          Some((s, e)) => newly_done(*s) && yields(g, o, *s) && entry_val(e) == entry_of(g, *s) && b.previous_module == Some(e),
          None => b.visiting@.len() == 0 && b.previous_module is None,
        }
}

} // verus!
verus! {

pub open spec fn is_dep_target_upto(o: WOpts, deps: Seq<&Dependency>, n: int, t: Url) -> bool {
    exists|i: int| 0 <= i < n && i < deps.len() && dep_followed(o, *(#[trigger] deps[i])) && dep_points_to(o, *deps[i], t)
}
pub open spec fn res_targets_upto(rs: Seq<&Resolution>, n: int, t: Url) -> bool {
    exists|j: int| 0 <= j < n && j < rs.len() && res_specifier(*(#[trigger] rs[j])) == Some(t)
}
/// effect of pushing not-yet-seen targets characterised by `p`
pub open spec fn pushed(a: ModuleEntryIterator, b: ModuleEntryIterator, p: spec_fn(Url) -> bool) -> bool {
    &&& same_config(a, b) && a.previous_module == b.previous_module
    &&& forall|t: Url| seen(b, t) <==> (seen(a, t) || p(t))
    &&& forall|t: Url| queued(b, t) <==> (queued(a, t) || (seen(b, t) && !seen(a, t)))
}

/// one `if seen.insert(s) { visiting.push_front(s) }` step
pub proof fn lemma_push_step(a: ModuleEntryIterator, b: ModuleEntryIterator, s: &Url)
    requires
        wf(a), same_config(a, b), a.previous_module == b.previous_module,
        b.seen@ == a.seen@.insert(s),
        b.visiting@ == (if a.seen@.contains(s) { a.visiting@ } else { seq![s] + a.visiting@ }),
    ensures
        wf(b),
        forall|t: Url| seen(b, t) <==> (seen(a, t) || t == *s),
        forall|t: Url| queued(b, t) <==> (queued(a, t) || (seen(b, t) && !seen(a, t))),
{
    if a.seen@.contains(s) {
        assert(b.seen@ =~= a.seen@);
    } else {
        let v = seq![s] + a.visiting@;
        assert(v[0] == s);
        assert forall|i: int| 1 <= i < v.len() implies #[trigger] v[i] == a.visiting@[i - 1] by {}
        assert forall|i: int| 0 <= i < b.visiting@.len() implies b.seen@.contains(#[trigger] b.visiting@[i]) by {
            if i > 0 { assert(b.visiting@[i] == a.visiting@[i - 1]); }
        }
        assert forall|i: int, j: int| 0 <= i < j < b.visiting@.len() implies *b.visiting@[i] != *b.visiting@[j] by {
            assert(b.visiting@[j] == a.visiting@[j - 1]);
            if i == 0 { assert(a.seen@.contains(a.visiting@[j - 1])); } else { assert(b.visiting@[i] == a.visiting@[i - 1]); }
        }
        assert forall|t: Url| queued(b, t) <==> (queued(a, t) || (seen(b, t) && !seen(a, t))) by {
            if queued(b, t) {
                let i = choose|i: int| 0 <= i < b.visiting@.len() && *(#[trigger] b.visiting@[i]) == t;
                if i > 0 { assert(*a.visiting@[i - 1] == t); }
            }
            if queued(a, t) {
                let i = choose|i: int| 0 <= i < a.visiting@.len() && *(#[trigger] a.visiting@[i]) == t;
                assert(*b.visiting@[i + 1] == t);
            }
            if seen(b, t) && !seen(a, t) { assert(*b.visiting@[0] == t); }
        }
    }
}

} // verus!
verus! {

/// taking the head of the queue
pub proof fn lemma_pop_step(a: ModuleEntryIterator, b: ModuleEntryIterator, p: &Url)
    requires
        wf(a), same_config(a, b), a.visiting@.len() > 0, p == a.visiting@[0],
        b.visiting@ == a.visiting@.subrange(1, a.visiting@.len() as int), b.seen@ == a.seen@,
    ensures
        wf(b), done(b, *p), queued(a, *p),
        forall|t: Url| t != *p ==> (queued(b, t) <==> queued(a, t)),
        forall|t: Url| seen(b, t) <==> seen(a, t),
{
    let v = a.visiting@;
    let w = b.visiting@;
    assert forall|i: int| 0 <= i < w.len() implies #[trigger] w[i] == v[i + 1] by {}
    assert forall|i: int| 0 <= i < w.len() implies b.seen@.contains(#[trigger] w[i]) by { assert(w[i] == v[i + 1]); }
    assert forall|i: int, j: int| 0 <= i < j < w.len() implies *w[i] != *w[j] by { assert(w[i] == v[i + 1]); assert(w[j] == v[j + 1]); }
    assert(a.seen@.contains(v[0]));
    if queued(b, *p) {
        let i = choose|i: int| 0 <= i < w.len() && *(#[trigger] w[i]) == *p;
        assert(w[i] == v[i + 1]);
    }
    assert forall|t: Url| t != *p implies (queued(b, t) <==> queued(a, t)) by {
        if queued(b, t) { let i = choose|i: int| 0 <= i < w.len() && *(#[trigger] w[i]) == t; assert(*v[i + 1] == t); }
        if queued(a, t) { let i = choose|i: int| 0 <= i < v.len() && *(#[trigger] v[i]) == t; assert(i > 0); assert(*w[i - 1] == t); }
    }
}

} // verus!
verus! {

/// the first phase of `next()`: the previously yielded entry (if any) is expanded
pub open spec fn expanded(a: ModuleEntryIterator, st1: ModuleEntryIterator) -> bool {
    let o = opts_of(a);
    &&& wf(st1) && same_config(a, st1) && st1.previous_module is None
    &&& forall|t: Url| seen(st1, t) <==> (seen(a, t) || expands_to(o, opt_entry_val(a.previous_module), t))
    &&& forall|t: Url| queued(st1, t) <==> (queued(a, t) || (seen(st1, t) && !seen(a, t)))
}
/// one iteration of the queue loop: `p` is taken from the queue, its types dependency is pushed
pub open spec fn step(g: ModuleGraph, o: WOpts, s0: ModuleEntryIterator, cur: ModuleEntryIterator, p: Url) -> bool {
    &&& wf(s0) && wf(cur) && same_config(s0, cur)
    &&& queued(s0, p) && done(cur, p)
    &&& forall|t: Url| seen(cur, t) <==> (seen(s0, t) || on_pop(g, o, p, t))
    &&& forall|t: Url| t != p ==> (queued(cur, t) <==> (queued(s0, t) || (seen(cur, t) && !seen(s0, t))))
}
/// loop invariant of the queue loop, relative to the state `st1` it started from
pub open spec fn loop_inv(g: ModuleGraph, o: WOpts, st1: ModuleEntryIterator, cur: ModuleEntryIterator) -> bool {
    &&& wf(cur) && same_config(st1, cur)
    &&& forall|t: Url| seen(cur, t) <==> (seen(st1, t) || exists|p: Url| done(cur, p) && !done(st1, p) && #[trigger] on_pop(g, o, p, t))
    &&& forall|t: Url| queued(cur, t) ==> (queued(st1, t) || (seen(cur, t) && !seen(st1, t)))
    &&& forall|t: Url| done(st1, t) ==> done(cur, t)
    &&& forall|p: Url| done(cur, p) && !done(st1, p) ==> !#[trigger] yields(g, o, p)
}

pub proof fn lemma_loop_init(g: ModuleGraph, o: WOpts, st1: ModuleEntryIterator)
    requires wf(st1),
    ensures loop_inv(g, o, st1, st1),
{
}

pub proof fn lemma_loop_step(g: ModuleGraph, o: WOpts, st1: ModuleEntryIterator, s0: ModuleEntryIterator, cur: ModuleEntryIterator, p: Url)
    requires loop_inv(g, o, st1, s0), step(g, o, s0, cur, p), !yields(g, o, p),
    ensures loop_inv(g, o, st1, cur),
{
    assert(!done(st1, p)) by {
        if done(st1, p) { assert(done(s0, p)); }
    }
    assert forall|t: Url| seen(cur, t) <==> (seen(st1, t) || exists|q: Url| done(cur, q) && !done(st1, q) && #[trigger] on_pop(g, o, q, t)) by {
        if seen(cur, t) {
            if seen(s0, t) {
                if !seen(st1, t) {
                    let q = choose|q: Url| done(s0, q) && !done(st1, q) && #[trigger] on_pop(g, o, q, t);
                    assert(done(cur, q)) by { lemma_done_mono(g, o, s0, cur, p, q); }
                }
            } else {
                assert(on_pop(g, o, p, t));
            }
        }
        if exists|q: Url| done(cur, q) && !done(st1, q) && #[trigger] on_pop(g, o, q, t) {
            let q = choose|q: Url| done(cur, q) && !done(st1, q) && #[trigger] on_pop(g, o, q, t);
            if q == p { } else {
                assert(done(s0, q)) by { lemma_done_back(g, o, s0, cur, p, q); }
            }
        }
    }
    assert forall|t: Url| queued(cur, t) implies (queued(st1, t) || (seen(cur, t) && !seen(st1, t))) by {
        assert(t != p);
        if queued(s0, t) { } else { assert(seen(cur, t) && !seen(s0, t)); }
    }
    assert forall|t: Url| done(st1, t) implies done(cur, t) by {
        assert(done(s0, t));
        lemma_done_mono(g, o, s0, cur, p, t);
    }
    assert forall|q: Url| done(cur, q) && !done(st1, q) implies !#[trigger] yields(g, o, q) by {
        if q != p { lemma_done_back(g, o, s0, cur, p, q); }
    }
}
pub proof fn lemma_done_mono(g: ModuleGraph, o: WOpts, s0: ModuleEntryIterator, cur: ModuleEntryIterator, p: Url, q: Url)
    requires step(g, o, s0, cur, p), done(s0, q),
    ensures done(cur, q),
{
    assert(q != p);
}
pub proof fn lemma_done_back(g: ModuleGraph, o: WOpts, s0: ModuleEntryIterator, cur: ModuleEntryIterator, p: Url, q: Url)
    requires step(g, o, s0, cur, p), done(cur, q), q != p,
    ensures done(s0, q),
{
    if !seen(s0, q) { assert(queued(cur, q)); }
}

/// `done` relative to the state before the expansion phase
pub proof fn lemma_expanded_done(a: ModuleEntryIterator, st1: ModuleEntryIterator, p: Url)
    requires wf(a), expanded(a, st1),
    ensures done(st1, p) <==> done(a, p),
{
    if done(a, p) { assert(!queued(st1, p)); }
    if done(st1, p) {
        if !seen(a, p) { assert(queued(st1, p)); }
    }
}

pub proof fn lemma_finish_none(a: ModuleEntryIterator, st1: ModuleEntryIterator, fin: ModuleEntryIterator)
    requires
        wf(a), expanded(a, st1), loop_inv(*a.graph, opts_of(a), st1, fin),
        fin.visiting@.len() == 0, fin.previous_module is None,
    ensures next_rel(a, fin, None),
{
    lemma_finish_common(a, st1, fin);
}
pub proof fn lemma_finish_some(a: ModuleEntryIterator, st1: ModuleEntryIterator, s0: ModuleEntryIterator, cur: ModuleEntryIterator, fin: ModuleEntryIterator, s: &Url, e: ModuleEntryRef)
    requires
        wf(a), expanded(a, st1), loop_inv(*a.graph, opts_of(a), st1, s0), step(*a.graph, opts_of(a), s0, cur, *s),
        yields(*a.graph, opts_of(a), *s), entry_val(e) == entry_of(*a.graph, *s),
        same_config(cur, fin), fin.seen == cur.seen, fin.visiting == cur.visiting, fin.previous_module == Some(e),
    ensures next_rel(a, fin, Some((s, e))), wf(fin),
{
    let g = *a.graph;
    let o = opts_of(a);
    // treat the yielded specifier like any other step for the set bookkeeping, except clause (D)
    assert(!done(st1, *s)) by { if done(st1, *s) { assert(done(s0, *s)); } }
    assert forall|t: Url| seen(fin, t) <==> (seen(st1, t) || exists|q: Url| done(fin, q) && !done(st1, q) && #[trigger] on_pop(g, o, q, t)) by {
        if seen(cur, t) {
            if seen(s0, t) {
                if !seen(st1, t) {
                    let q = choose|q: Url| done(s0, q) && !done(st1, q) && #[trigger] on_pop(g, o, q, t);
                    lemma_done_mono(g, o, s0, cur, *s, q);
                }
            } else { assert(on_pop(g, o, *s, t)); }
        }
        if exists|q: Url| done(fin, q) && !done(st1, q) && #[trigger] on_pop(g, o, q, t) {
            let q = choose|q: Url| done(fin, q) && !done(st1, q) && #[trigger] on_pop(g, o, q, t);
            if q != *s { lemma_done_back(g, o, s0, cur, *s, q); }
        }
    }
    assert forall|t: Url| queued(fin, t) implies (queued(st1, t) || (seen(fin, t) && !seen(st1, t))) by {
        assert(t != *s);
        if queued(s0, t) { } else { assert(seen(cur, t) && !seen(s0, t)); }
    }
    assert forall|t: Url| done(st1, t) implies done(fin, t) by { assert(done(s0, t)); lemma_done_mono(g, o, s0, cur, *s, t); }
    assert forall|q: Url| done(fin, q) && !done(st1, q) && q != *s implies !#[trigger] yields(g, o, q) by {
        lemma_done_back(g, o, s0, cur, *s, q);
    }
    lemma_finish_glue(a, st1, fin, Some((s, e)));
}
proof fn lemma_finish_common(a: ModuleEntryIterator, st1: ModuleEntryIterator, fin: ModuleEntryIterator)
    requires
        wf(a), expanded(a, st1), loop_inv(*a.graph, opts_of(a), st1, fin),
        fin.visiting@.len() == 0, fin.previous_module is None,
    ensures next_rel(a, fin, None),
{
    lemma_finish_glue(a, st1, fin, None);
}
/// re-base the bookkeeping from `st1` (after expansion) to `a` (before the call)
proof fn lemma_finish_glue(a: ModuleEntryIterator, st1: ModuleEntryIterator, fin: ModuleEntryIterator, r: Option<(&Url, ModuleEntryRef)>)
    requires
        wf(a), expanded(a, st1), wf(fin), same_config(st1, fin),
        forall|t: Url| seen(fin, t) <==> (seen(st1, t) || exists|q: Url| done(fin, q) && !done(st1, q) && #[trigger] on_pop(*a.graph, opts_of(a), q, t)),
        forall|t: Url| queued(fin, t) ==> (queued(st1, t) || (seen(fin, t) && !seen(st1, t))),
        forall|t: Url| done(st1, t) ==> done(fin, t),
        forall|q: Url| done(fin, q) && !done(st1, q) && (r is None || *r.unwrap().0 != q) ==> !#[trigger] yields(*a.graph, opts_of(a), q),
        match r {
            Some((s, e)) => done(fin, *s) && !done(st1, *s) && yields(*a.graph, opts_of(a), *s) && entry_val(e) == entry_of(*a.graph, *s) && fin.previous_module == Some(e),
            None => fin.visiting@.len() == 0 && fin.previous_module is None,
        },
    ensures next_rel(a, fin, r),
{
    let g = *a.graph;
    let o = opts_of(a);
    let prev = opt_entry_val(a.previous_module);
    assert forall|p: Url| (done(fin, p) && !done(a, p)) <==> (done(fin, p) && !done(st1, p)) by { lemma_expanded_done(a, st1, p); }
    assert forall|t: Url| seen(fin, t) <==> (seen(a, t) || expands_to(o, prev, t) || exists|p: Url| (done(fin, p) && !done(a, p)) && #[trigger] on_pop(g, o, p, t)) by {
        if exists|q: Url| done(fin, q) && !done(st1, q) && #[trigger] on_pop(g, o, q, t) {
            let q = choose|q: Url| done(fin, q) && !done(st1, q) && #[trigger] on_pop(g, o, q, t);
            lemma_expanded_done(a, st1, q);
        }
        if exists|p: Url| (done(fin, p) && !done(a, p)) && #[trigger] on_pop(g, o, p, t) {
            let q = choose|p: Url| (done(fin, p) && !done(a, p)) && #[trigger] on_pop(g, o, p, t);
            lemma_expanded_done(a, st1, q);
        }
    }
    assert forall|t: Url| queued(fin, t) implies (queued(a, t) || (seen(fin, t) && !seen(a, t))) by { }
    assert forall|t: Url| done(a, t) implies done(fin, t) by { lemma_expanded_done(a, st1, t); }
    assert forall|p: Url| (done(fin, p) && !done(a, p)) && (r is None || *r.unwrap().0 != p) implies !#[trigger] yields(g, o, p) by { lemma_expanded_done(a, st1, p); }
    match r { Some((s, e)) => { lemma_expanded_done(a, st1, *s); }, None => { } }
}

} // verus!
verus! {
/// `next_rel` and `wf` only look at the views of the collections
pub proof fn lemma_next_rel_views(a: ModuleEntryIterator, x: ModuleEntryIterator, y: ModuleEntryIterator, r: Option<(&Url, ModuleEntryRef)>)
    requires
        next_rel(a, x, r), wf(x),
        x.visiting@ == y.visiting@, x.seen@ == y.seen@, same_config(x, y), x.previous_module == y.previous_module,
    ensures next_rel(a, y, r), wf(y),
{
    assert forall|t: Url| (seen(x, t) <==> seen(y, t)) && (queued(x, t) <==> queued(y, t)) && (done(x, t) <==> done(y, t)) by { }
    let g = *a.graph;
    let o = opts_of(a);
    let prev = opt_entry_val(a.previous_module);
    assert forall|t: Url| seen(y, t) <==> (seen(a, t) || expands_to(o, prev, t) || exists|p: Url| (done(y, p) && !done(a, p)) && #[trigger] on_pop(g, o, p, t)) by {
        assert(seen(x, t) <==> (seen(a, t) || expands_to(o, prev, t) || exists|p: Url| (done(x, p) && !done(a, p)) && #[trigger] on_pop(g, o, p, t)));
        if exists|p: Url| (done(x, p) && !done(a, p)) && #[trigger] on_pop(g, o, p, t) {
            let p = choose|p: Url| (done(x, p) && !done(a, p)) && #[trigger] on_pop(g, o, p, t);
            assert(done(y, p));
        }
        if exists|p: Url| (done(y, p) && !done(a, p)) && #[trigger] on_pop(g, o, p, t) {
            let p = choose|p: Url| (done(y, p) && !done(a, p)) && #[trigger] on_pop(g, o, p, t);
            assert(done(x, p));
        }
    }
}
} // verus!
