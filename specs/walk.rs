// Specification of the graph walk (ModuleEntryIterator), written from the statement of C15.
verus! {

/// the options a walk was started with (mirrors the iterator's option fields)
pub struct WOpts<'a> {
    pub follow_dynamic: bool,
    pub kind: GraphKind,
    pub check_js: CheckJsOption<'a>,
    pub prefer_fc: bool,
}

pub open spec fn inc_types(k: GraphKind) -> bool { k == GraphKind::All || k == GraphKind::TypesOnly }
pub open spec fn inc_code(k: GraphKind) -> bool { k == GraphKind::All || k == GraphKind::CodeOnly }

pub open spec fn cjs(c: CheckJsOption, s: Url) -> bool {
    match c {
        CheckJsOption::True => true,
        CheckJsOption::False => false,
        CheckJsOption::Custom(r) => r.resolve_spec(s),
    }
}

/// "can be type checked": typed media types always, JavaScript only when check-js says so
pub open spec fn checkable(c: CheckJsOption, s: Url, mt: MediaType) -> bool {
    match mt {
        MediaType::TypeScript | MediaType::Mts | MediaType::Cts | MediaType::Dts | MediaType::Dmts
        | MediaType::Dcts | MediaType::Tsx | MediaType::Json | MediaType::Wasm => true,
        MediaType::JavaScript | MediaType::Jsx | MediaType::Mjs | MediaType::Cjs => cjs(c, s),
        _ => false,
    }
}

pub open spec fn mod_specifier(m: Module) -> Url {
    match m {
        Module::Js(x) => x.specifier, Module::Json(x) => x.specifier, Module::Wasm(x) => x.specifier,
        Module::Npm(x) => x.specifier, Module::Node(x) => x.specifier, Module::External(x) => x.specifier,
    }
}
pub open spec fn mod_media_type(m: Module) -> MediaType {
    match m {
        Module::Js(x) => x.media_type, Module::Json(x) => x.media_type, Module::Wasm(_) => MediaType::Wasm,
        Module::Node(_) => MediaType::JavaScript, _ => MediaType::Unknown,
    }
}
/// the recorded dependencies of a module, in source order (modules without dependencies: none)
pub open spec fn mod_deps(m: Module) -> Seq<Dependency> {
    match m {
        Module::Js(x) => im_vals(x.dependencies),
        Module::Wasm(x) => im_vals(x.dependencies),
        _ => Seq::empty(),
    }
}
pub open spec fn js_fast_check_deps(x: JsModule) -> Option<Seq<Dependency>> {
    match x.fast_check {
        Some(FastCheckTypeModuleSlot::Module(fc)) => Some(im_vals(fc.dependencies)),
        _ => None,
    }
}
/// "fast-check dependencies preferred when requested"
pub open spec fn mod_deps_prefer_fc(m: Module) -> Seq<Dependency> {
    match m {
        Module::Js(x) => match js_fast_check_deps(x) { Some(d) => d, None => im_vals(x.dependencies) },
        Module::Wasm(x) => im_vals(x.dependencies),
        _ => Seq::empty(),
    }
}
pub open spec fn walk_deps(o: WOpts, m: Module) -> Seq<Dependency> {
    if inc_types(o.kind) && checkable(o.check_js, mod_specifier(m), mod_media_type(m)) && o.prefer_fc { mod_deps_prefer_fc(m) } else { mod_deps(m) }
}

/// one dependency contributes its resolved code target, and its resolved type target when types
/// are included; dynamic dependencies only when requested
pub open spec fn dep_followed(o: WOpts, d: Dependency) -> bool { !d.is_dynamic || o.follow_dynamic }
pub open spec fn dep_points_to(o: WOpts, d: Dependency, t: Url) -> bool {
    res_specifier(d.maybe_code) == Some(t) || (inc_types(o.kind) && res_specifier(d.maybe_type) == Some(t))
}
pub open spec fn is_dep_target(o: WOpts, deps: Seq<Dependency>, t: Url) -> bool {
    exists|i: int| 0 <= i < deps.len() && dep_followed(o, #[trigger] deps[i]) && dep_points_to(o, deps[i], t)
}

/// what the walk sees at a specifier
pub enum EntryV { Module(Module), Err(ModuleError), Redirect(Url), Nothing }

pub open spec fn entry_of(g: ModuleGraph, s: Url) -> EntryV {
    match slot_at(g, s) {
        Some(ModuleSlot::Module(m)) => EntryV::Module(m),
        Some(ModuleSlot::Err(e)) => EntryV::Err(e),
        Some(ModuleSlot::Pending { .. }) => EntryV::Nothing,
        None => match redirect_of(g, s) { Some(t) => EntryV::Redirect(t), None => EntryV::Nothing },
    }
}
pub open spec fn entry_val(e: ModuleEntryRef) -> EntryV {
    match e {
        ModuleEntryRef::Module(m) => EntryV::Module(*m),
        ModuleEntryRef::Err(x) => EntryV::Err(*x),
        ModuleEntryRef::Redirect(t) => EntryV::Redirect(*t),
    }
}
pub open spec fn opt_entry_val(e: Option<ModuleEntryRef>) -> EntryV {
    match e { Some(x) => entry_val(x), None => EntryV::Nothing }
}

/// "an untyped module replaced by its types dependency in types-only walks": in a types-only walk
/// a JS module that has a resolved types dependency, or that is not checkable, is not yielded
pub open spec fn substituted(o: WOpts, m: Module) -> bool {
    o.kind == GraphKind::TypesOnly && match m {
        Module::Js(x) => types_target(m) is Some || !checkable(o.check_js, x.specifier, x.media_type),
        _ => false,
    }
}
pub open spec fn yields(g: ModuleGraph, o: WOpts, s: Url) -> bool {
    match entry_of(g, s) {
        EntryV::Module(m) => !substituted(o, m),
        EntryV::Err(_) => true,
        EntryV::Redirect(_) => true,
        EntryV::Nothing => false,
    }
}
/// edge taken as soon as a specifier is taken from the queue: the types dependency of a JS module
pub open spec fn on_pop(g: ModuleGraph, o: WOpts, s: Url, t: Url) -> bool {
    match entry_of(g, s) {
        EntryV::Module(m) => m is Js && inc_types(o.kind) && types_target(m) == Some(t),
        _ => false,
    }
}
/// edges taken when a yielded entry is expanded (on the following `next()`)
pub open spec fn expands_to(o: WOpts, e: EntryV, t: Url) -> bool {
    match e {
        EntryV::Redirect(to) => to == t,
        EntryV::Module(m) => is_dep_target(o, walk_deps(o, m), t),
        _ => false,
    }
}
pub open spec fn edge(g: ModuleGraph, o: WOpts, a: Url, b: Url) -> bool {
    on_pop(g, o, a, b) || (yields(g, o, a) && expands_to(o, entry_of(g, a), b))
}
/// targets of the configured imports
pub open spec fn is_import_target(g: ModuleGraph, o: WOpts, t: Url) -> bool {
    exists|a: int, b: int| 0 <= a < im_vals(g.imports).len() && 0 <= b < im_vals(im_vals(g.imports)[a].dependencies).len()
        && dep_points_to(o, #[trigger] im_vals(im_vals(g.imports)[a].dependencies)[b], t)
}
pub open spec fn is_start(g: ModuleGraph, o: WOpts, roots: Seq<&Url>, t: Url) -> bool {
    (exists|i: int| 0 <= i < roots.len() && *(#[trigger] roots[i]) == t) || is_import_target(g, o, t)
}
pub open spec fn is_path(g: ModuleGraph, o: WOpts, roots: Seq<&Url>, p: Seq<Url>) -> bool {
    &&& p.len() > 0
    &&& is_start(g, o, roots, p[0])
    &&& forall|i: int| 0 <= i < p.len() - 1 ==> edge(g, o, #[trigger] p[i], p[i + 1])
}
/// "the set reachable from those roots and the configured imports through the graph's own recorded
/// dependencies under the chosen options"
pub open spec fn reach(g: ModuleGraph, o: WOpts, roots: Seq<&Url>, t: Url) -> bool {
    exists|p: Seq<Url>| is_path(g, o, roots, p) && #[trigger] p.last() == t
}

// ---- iterator state abstraction (over the exec fields; no ghost field is added to the struct)
pub open spec fn opts_of<'a, 'o>(it: ModuleEntryIterator<'a, 'o>) -> WOpts<'o> {
    WOpts { follow_dynamic: it.follow_dynamic, kind: it.kind, check_js: it.check_js, prefer_fc: it.prefer_fast_check_graph }
}
pub open spec fn seen(it: ModuleEntryIterator, t: Url) -> bool { it.seen@.contains(&t) }
pub open spec fn queued(it: ModuleEntryIterator, t: Url) -> bool {
    exists|i: int| 0 <= i < it.visiting@.len() && *(#[trigger] it.visiting@[i]) == t
}
/// taken from the queue already
pub open spec fn done(it: ModuleEntryIterator, t: Url) -> bool { seen(it, t) && !queued(it, t) }

/// representation invariant: the queue has no duplicates and holds only seen specifiers
pub open spec fn wf(it: ModuleEntryIterator) -> bool {
    &&& forall|i: int| 0 <= i < it.visiting@.len() ==> it.seen@.contains(#[trigger] it.visiting@[i])
    &&& forall|i: int, j: int| 0 <= i < j < it.visiting@.len() ==> *it.visiting@[i] != *it.visiting@[j]
}
pub open spec fn same_config(a: ModuleEntryIterator, b: ModuleEntryIterator) -> bool {
    a.graph == b.graph && a.follow_dynamic == b.follow_dynamic && a.kind == b.kind && a.check_js == b.check_js
        && a.prefer_fast_check_graph == b.prefer_fast_check_graph
}

/// effect of pushing the targets of `deps` (analyze_module_deps)
pub open spec fn pushed_deps(a: ModuleEntryIterator, b: ModuleEntryIterator, deps: Seq<Dependency>) -> bool {
    &&& same_config(a, b) && a.previous_module == b.previous_module
    &&& forall|t: Url| seen(b, t) <==> (seen(a, t) || is_dep_target(opts_of(a), deps, t))
    &&& forall|t: Url| queued(b, t) <==> (queued(a, t) || (seen(b, t) && !seen(a, t)))
}

/// the transition relation of one `next()` call, at the level of sets
pub open spec fn next_rel(a: ModuleEntryIterator, b: ModuleEntryIterator, r: Option<(&Url, ModuleEntryRef)>) -> bool {
    let g = *a.graph;
    let o = opts_of(a);
    let prev = opt_entry_val(a.previous_module);
    let newly_done = |p: Url| done(b, p) && !done(a, p);
    &&& same_config(a, b)
    // the seen set grows exactly by the expansion of the previously yielded entry and by the
    // types dependencies of what was taken from the queue
    &&& forall|t: Url| seen(b, t) <==> (seen(a, t) || expands_to(o, prev, t) || exists|p: Url| newly_done(p) && #[trigger] on_pop(g, o, p, t))
    // queue: only newly seen specifiers enter it; what was done stays done
    &&& forall|t: Url| queued(b, t) ==> (queued(a, t) || (seen(b, t) && !seen(a, t)))
    &&& forall|t: Url| done(a, t) ==> done(b, t)
    // everything taken from the queue but not returned is something the walk does not yield
    &&& forall|p: Url| newly_done(p) && (r is None || *r.unwrap().0 != p) ==> !#[trigger] yields(g, o, p)
    &&& match r {
          Some((s, e)) => newly_done(*s) && yields(g, o, *s) && entry_val(e) == entry_of(g, *s) && b.previous_module == Some(e),
          None => b.visiting@.len() == 0 && b.previous_module is None,
        }
}

} // verus!
verus! {

pub open spec fn is_dep_target_upto(o: WOpts, deps: Seq<&Dependency>, n: int, t: Url) -> bool {
    exists|i: int| 0 <= i < n && i < deps.len() && dep_followed(o, *(#[trigger] deps[i])) && dep_points_to(o, *deps[i], t)
}
pub open spec fn res_targets_upto(rs: Seq<&Resolution>, n: int, t: Url) -> bool {
    exists|j: int| 0 <= j < n && j < rs.len() && res_specifier(*(#[trigger] rs[j])) == Some(t)
}
/// effect of pushing not-yet-seen targets characterised by `p`
pub open spec fn pushed(a: ModuleEntryIterator, b: ModuleEntryIterator, p: spec_fn(Url) -> bool) -> bool {
    &&& same_config(a, b) && a.previous_module == b.previous_module
    &&& forall|t: Url| seen(b, t) <==> (seen(a, t) || p(t))
    &&& forall|t: Url| queued(b, t) <==> (queued(a, t) || (seen(b, t) && !seen(a, t)))
}

/// one `if seen.insert(s) { visiting.push_front(s) }` step
pub proof fn lemma_push_step(a: ModuleEntryIterator, b: ModuleEntryIterator, s: &Url)
    requires
        wf(a), same_config(a, b), a.previous_module == b.previous_module,
        b.seen@ == a.seen@.insert(s),
        b.visiting@ == (if a.seen@.contains(s) { a.visiting@ } else { seq![s] + a.visiting@ }),
    ensures
        wf(b),
        forall|t: Url| seen(b, t) <==> (seen(a, t) || t == *s),
        forall|t: Url| queued(b, t) <==> (queued(a, t) || (seen(b, t) && !seen(a, t))),
{
    if a.seen@.contains(s) {
        assert(b.seen@ =~= a.seen@);
    } else {
        let v = seq![s] + a.visiting@;
        assert(v[0] == s);
        assert forall|i: int| 1 <= i < v.len() implies #[trigger] v[i] == a.visiting@[i - 1] by {}
        assert forall|i: int| 0 <= i < b.visiting@.len() implies b.seen@.contains(#[trigger] b.visiting@[i]) by {
            if i > 0 { assert(b.visiting@[i] == a.visiting@[i - 1]); }
        }
        assert forall|i: int, j: int| 0 <= i < j < b.visiting@.len() implies *b.visiting@[i] != *b.visiting@[j] by {
            assert(b.visiting@[j] == a.visiting@[j - 1]);
            if i == 0 { assert(a.seen@.contains(a.visiting@[j - 1])); } else { assert(b.visiting@[i] == a.visiting@[i - 1]); }
        }
        assert forall|t: Url| queued(b, t) <==> (queued(a, t) || (seen(b, t) && !seen(a, t))) by {
            if queued(b, t) {
                let i = choose|i: int| 0 <= i < b.visiting@.len() && *(#[trigger] b.visiting@[i]) == t;
                if i > 0 { assert(*a.visiting@[i - 1] == t); }
            }
            if queued(a, t) {
                let i = choose|i: int| 0 <= i < a.visiting@.len() && *(#[trigger] a.visiting@[i]) == t;
                assert(*b.visiting@[i + 1] == t);
            }
            if seen(b, t) && !seen(a, t) { assert(*b.visiting@[0] == t); }
        }
    }
}

} // verus!
