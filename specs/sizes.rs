verus! { } // verus!
