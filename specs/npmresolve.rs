// C03 "npm resolution failures ... Each failure becomes an error entry for the affected specifier carrying its referrer"
// at NpmSpecifierResolver::resolve (results are collected in `pending_info` and merged into the graph by fill_graph,
// which never overwrites an existing entry)
verus! {
pub open spec fn npm_error_filed(slots: vstd::map::Map<Url, ModuleSlot>, requested: Url, referrer: Option<Range>, cause: NpmLoadError) -> bool {
    slots.contains_key(requested) && match slots[requested] {
        ModuleSlot::Err(e) => *e.0 == (ModuleErrorKind::Load { specifier: requested, maybe_referrer: referrer, err: ModuleLoadError::Npm(cause) }),
        _ => false,
    }
}
pub open spec fn npm_module_filed(slots: vstd::map::Map<Url, ModuleSlot>, requested: Url, pkg: NpmPackageReqReference) -> bool {
    slots.contains_key(requested) && slots[requested] == ModuleSlot::Module(Module::Npm(NpmModule { specifier: requested, pkg_req_ref: pkg }))
}
/// how a dynamically imported npm requirement must end, whatever the code does in between: rejected by the resolver ->
/// error entry with that cause; accepted but the dependency-graph resolution failed -> error entry with that cause;
/// otherwise an npm module entry — always under the requesting specifier, errors carrying its referrer
pub open spec fn dynamic_npm_item_settled(slots: vstd::map::Map<Url, ModuleSlot>, item: PendingNpmResolutionItem, res: Result<(), NpmLoadError>,
    dep_graph: Result<(), std::sync::Arc<dyn JsErrorClass>>) -> bool {
    match res {
        Err(e) => npm_error_filed(slots, item.specifier, item.maybe_range, e),
        Ok(_) => match dep_graph {
            Err(e) => npm_error_filed(slots, item.specifier, item.maybe_range, NpmLoadError::PackageReqResolution(e)),
            Ok(_) => npm_module_filed(slots, item.specifier, item.package_ref),
        },
    }
}
/// the same for one statically imported specifier whose requirement got the answer `res`
pub open spec fn static_npm_item_settled(slots: vstd::map::Map<Url, ModuleSlot>, item: PendingNpmResolutionItem, res: Result<(), NpmLoadError>) -> bool {
    match res {
        Err(e) => npm_error_filed(slots, item.specifier, item.maybe_range, e),
        Ok(_) => npm_module_filed(slots, item.specifier, item.package_ref),
    }
}
} // verus!
