// C03 at Builder::handle_jsr_registry_pending_content_loads: every fault of a deferred registry content load "becomes an
// error entry for the affected specifier carrying its referrer", nothing else is touched, and the step cannot panic;
// C20/C13: the source filled in later is the decoding of the loaded bytes
verus! {
/// the slot of `requested` holds a load error about `requested`, carrying `referrer` and the given cause
pub open spec fn load_error_stored(g: ModuleGraph, requested: Url, referrer: Option<Range>, cause: ModuleLoadError) -> bool {
    g.module_slots@.contains_key(requested) && match g.module_slots@[requested] {
        ModuleSlot::Err(e) => match *e.0 {
            ModuleErrorKind::Load { specifier, maybe_referrer, err } => specifier == requested && maybe_referrer == referrer && err == cause,
            _ => false,
        },
        _ => false,
    }
}
pub open spec fn missing_stored(g: ModuleGraph, requested: Url, referrer: Option<Range>) -> bool {
    g.module_slots@.contains_key(requested) && match g.module_slots@[requested] {
        ModuleSlot::Err(e) => match *e.0 {
            ModuleErrorKind::Missing { specifier, maybe_referrer } => specifier == requested && maybe_referrer == referrer,
            _ => false,
        },
        _ => false,
    }
}
/// a slot that can receive deferred content: an error, or a JS / JSON / Wasm module
pub open spec fn awaits_content(s: ModuleSlot) -> bool {
    match s {
        ModuleSlot::Err(_) => true,
        ModuleSlot::Module(Module::Js(_)) => true,
        ModuleSlot::Module(Module::Json(_)) => true,
        ModuleSlot::Module(Module::Wasm(_)) => true,
        _ => false,
    }
}
/// the builder's invariant this step relies on (its two `unreachable!()` and its `unwrap()`): every specifier with a
/// queued content load has a slot that can receive content
pub open spec fn content_slots_ready(g: ModuleGraph) -> bool {
    forall|u: Url| #[trigger] content_load_queued(u) ==> g.module_slots@.contains_key(u) && awaits_content(g.module_slots@[u])
}
/// all slots other than `u` are untouched, and nothing outside the slots changes
pub open spec fn only_slot_changed(g0: ModuleGraph, g1: ModuleGraph, u: Url) -> bool {
    &&& g1.module_slots@.dom() == g0.module_slots@.dom().insert(u)
    &&& (forall|k: Url| k != u && #[trigger] g0.module_slots@.contains_key(k) ==> g1.module_slots@[k] == g0.module_slots@[k])
    &&& g1.redirects == g0.redirects && g1.roots == g0.roots && g1.imports == g0.imports && g1.packages == g0.packages
}
/// what filling the slot of `u` with the loaded `content` must give: an error slot stays; a JS / JSON module gets the
/// decoding of the bytes (no header charset) or becomes the decode error; a Wasm module gets the bytes and their
/// declaration text or becomes a Wasm parse error; everything else about the module is untouched
pub open spec fn content_filled(s0: ModuleSlot, s1: ModuleSlot, u: Url, content: std::sync::Arc<[u8]>) -> bool {
    match s0 {
        ModuleSlot::Err(_) => s1 == s0,
        ModuleSlot::Module(Module::Js(m0)) => match s1 {
            ModuleSlot::Module(Module::Js(m1)) => text_source_post(m0.specifier, content, None, None, Ok(m1.source))
                && m1 == (JsModule { source: m1.source, ..m0 }),
            ModuleSlot::Err(e) => text_source_post(m0.specifier, content, None, None, Err(e)),
            _ => false,
        },
        ModuleSlot::Module(Module::Json(m0)) => match s1 {
            ModuleSlot::Module(Module::Json(m1)) => text_source_post(m0.specifier, content, None, None, Ok(m1.source))
                && m1 == (JsonModule { source: m1.source, ..m0 }),
            ModuleSlot::Err(e) => text_source_post(m0.specifier, content, None, None, Err(e)),
            _ => false,
        },
        ModuleSlot::Module(Module::Wasm(m0)) => match wasm_dts_spec((*content)@) {
            Ok(dts) => match s1 {
                ModuleSlot::Module(Module::Wasm(m1)) => m1.source == content && m1.source_dts@ == dts@
                    && m1 == (WasmModule { source: m1.source, source_dts: m1.source_dts, ..m0 }),
                _ => false,
            },
            Err(pe) => match s1 {
                ModuleSlot::Err(e) => *e.0 == (ModuleErrorKind::WasmParse { specifier: m0.specifier, mtime: None, err: pe }),
                _ => false,
            },
        },
        _ => true,
    }
}
/// how a finished content load must end, whatever the code does in between (stated once, after the whole `match`, so
/// that deleting or rewriting an arm cannot take its clause away with it)
pub open spec fn content_item_settled(g0: ModuleGraph, g1: ModuleGraph, item: PendingContentLoadItem) -> bool {
    let u = item.specifier;
    &&& only_slot_changed(g0, g1, u)
    &&& match item.result {
            Ok(Some(LoadResponse::External { .. })) => load_error_stored(g1, u, item.maybe_range, ModuleLoadError::Jsr(JsrLoadError::ContentLoadExternalSpecifier)),
            Ok(Some(LoadResponse::Module { content, specifier, .. })) =>
                if specifier == u { g0.module_slots@.contains_key(u) ==> content_filled(g0.module_slots@[u], g1.module_slots@[u], u, content) }
                else { load_error_stored(g1, u, item.maybe_range, ModuleLoadError::Jsr(JsrLoadError::RedirectInPackage(specifier))) },
            Ok(Some(LoadResponse::Redirect { specifier })) => load_error_stored(g1, u, item.maybe_range, ModuleLoadError::Jsr(JsrLoadError::RedirectInPackage(specifier))),
            Ok(None) => missing_stored(g1, u, item.maybe_range),
            Err(e) => load_error_stored(g1, u, item.maybe_range, ModuleLoadError::Jsr(JsrLoadError::ContentLoad(std::sync::Arc::new(e)))),
        }
}
} // verus!
