// C06 at the Builder: "the highest version already selected for that package in this graph
// (lockfile-seeded selections included)" are the versions the package table lists under the name.
verus! {
/// the name@version entries the package table lists under `name`
pub open spec fn listed(tbl: PackageSpecifiers, name: PackageName) -> Seq<PackageNv> {
    if tbl.packages_by_name@.contains_key(name) { tbl.packages_by_name@[name]@ } else { Seq::empty() }
}
/// `existing` is exactly the versions listed under `name`, in order
pub open spec fn existing_is(tbl: PackageSpecifiers, name: PackageName, existing: Seq<&Version>) -> bool {
    existing.len() == listed(tbl, name).len()
      && forall|i: int| 0 <= i < existing.len() ==> *(#[trigger] existing[i]) == listed(tbl, name)[i].version
}
pub open spec fn existing_nvs_are(tbl: PackageSpecifiers, name: PackageName, nvs: Seq<&PackageNv>) -> bool {
    nvs.len() == listed(tbl, name).len()
      && forall|i: int| 0 <= i < nvs.len() ==> *(#[trigger] nvs[i]) == listed(tbl, name)[i]
}
pub open spec fn cutoff_for(o: NewestDependencyDateOptions, name: PackageName) -> Option<NewestDependencyDate> {
    if o.date is Some && !pkg_excluded(o, name) { o.date } else { None }
}
/// some already-selected version of the package satisfies the requirement
pub open spec fn unification_decides(tbl: PackageSpecifiers, req: PackageReq) -> bool {
    exists|i: int| 0 <= i < listed(tbl, req.name).len() && req_matches(req.version_req, (#[trigger] listed(tbl, req.name)[i]).version)
}
pub proof fn lemma_unification_is_tier1(tbl: PackageSpecifiers, req: PackageReq, existing: Seq<&Version>)
    requires existing_is(tbl, req.name, existing),
    ensures unification_decides(tbl, req) <==> !none_t1(req.version_req, existing),
{
    let l = listed(tbl, req.name);
    if unification_decides(tbl, req) {
        let i = choose|i: int| 0 <= i < l.len() && req_matches(req.version_req, (#[trigger] l[i]).version);
        assert(*existing[i] == l[i].version);
        assert(tier1(req.version_req, existing, l[i].version));
    }
    if !none_t1(req.version_req, existing) {
        let w = choose|w: Version| #[trigger] tier1(req.version_req, existing, w);
        let i = choose|i: int| 0 <= i < existing.len() && *(#[trigger] existing[i]) == w;
        assert(req_matches(req.version_req, l[i].version));
    }
}
/// The outcome of resolving one `jsr:` requirement at the builder (C06): the selection rule applied to the
/// versions already listed for the package, the table updated with the selection, a yanked selection reported
pub open spec fn resolve_jsr_nv_post(
    old_tbl: PackageSpecifiers, new_tbl: PackageSpecifiers, opts: NewestDependencyDateOptions,
    req: PackageReq, info: JsrPackageInfo, cached: Set<Version>,
    r: Result<PackageNv, JsrPackageReqNotFoundError>,
) -> bool {
    let cutoff = cutoff_for(opts, req.name);
    match r {
        Ok(nv) => {
            &&& nv.name == req.name
            &&& exists|existing: Seq<&Version>, sel: JsrVersionResolverResolvedVersion|
                  existing_is(old_tbl, req.name, existing) && #[trigger] select_post(req, existing, info, cached, cutoff, Ok(sel))
                  && *sel.version == nv.version
                  && new_tbl.used_yanked_packages@ == (if sel.is_yanked { old_tbl.used_yanked_packages@.insert(nv) } else { old_tbl.used_yanked_packages@ })
            &&& new_tbl.package_reqs@ == old_tbl.package_reqs@.insert(req, nv)
            &&& by_name_after_add(old_tbl.packages_by_name@, req.name, nv, new_tbl.packages_by_name@[req.name])
            &&& new_tbl.packages_by_name@.dom() == old_tbl.packages_by_name@.dom().insert(req.name)
            &&& new_tbl.packages@ == old_tbl.packages@ && new_tbl.top_level_packages@ == old_tbl.top_level_packages@
        },
        Err(e) => {
            &&& exists|existing: Seq<&Version>| existing_is(old_tbl, req.name, existing) && #[trigger] select_post(req, existing, info, cached, cutoff, Err(e))
            &&& new_tbl == old_tbl
        },
    }
}
} // verus!
verus! {
pub type LockItem<'a> = (&'a JsrDepPackageReq, &'a str);
/// the name@version a lockfile package entry seeds: `jsr:` entries whose value is a standard version
pub open spec fn lock_nv(item: LockItem) -> Option<PackageNv> {
    match item.0.kind {
        PackageKind::Jsr => match version_parse_standard(item.1@) {
            Some(v) => Some(PackageNv { name: item.0.req.name, version: v }),
            None => None,
        },
        PackageKind::Npm => None,
    }
}
/// "lockfile-seeded selections included": after seeding, exactly the previously listed versions and the
/// lockfile's jsr versions are listed (so `resolve_jsr_nv` sees them as already selected)
pub open spec fn lock_seeded(t0: PackageSpecifiers, items: Seq<LockItem>, t1: PackageSpecifiers) -> bool {
    &&& forall|i: int| 0 <= i < items.len() && lock_nv(#[trigger] items[i]) is Some ==>
          listed(t1, lock_nv(items[i]).unwrap().name).contains(lock_nv(items[i]).unwrap())
    &&& forall|n: PackageName, nv: PackageNv| #![trigger listed(t1, n).contains(nv)] listed(t0, n).contains(nv) ==> listed(t1, n).contains(nv)
    &&& forall|n: PackageName, nv: PackageNv| #![trigger listed(t1, n).contains(nv)] listed(t1, n).contains(nv) ==>
          listed(t0, n).contains(nv) || exists|i: int| 0 <= i < items.len() && lock_nv(#[trigger] items[i]) == Some(nv) && nv.name == n
    &&& t1.packages@ == t0.packages@ && t1.top_level_packages@ == t0.top_level_packages@ && t1.used_yanked_packages@ == t0.used_yanked_packages@
}
/// one loop iteration: the table either stayed or received add_nv(req, lock_nv(item))
pub open spec fn lock_step(item: LockItem, a: PackageSpecifiers, b: PackageSpecifiers) -> bool {
    match lock_nv(item) {
        None => b == a,
        Some(nv) => {
            &&& b.packages_by_name@.dom() == a.packages_by_name@.dom().insert(nv.name)
            &&& by_name_after_add(a.packages_by_name@, nv.name, nv, b.packages_by_name@[nv.name])
            &&& forall|n: PackageName| n != nv.name && #[trigger] a.packages_by_name@.contains_key(n) ==> b.packages_by_name@[n] == a.packages_by_name@[n]
            &&& b.packages@ == a.packages@ && b.top_level_packages@ == a.top_level_packages@ && b.used_yanked_packages@ == a.used_yanked_packages@
        },
    }
}
pub proof fn lemma_lock_seeded_step(t0: PackageSpecifiers, items: Seq<LockItem>, idx: int, a: PackageSpecifiers, b: PackageSpecifiers)
    requires
        0 <= idx < items.len(),
        lock_seeded(t0, items.take(idx), a),
        lock_step(items[idx], a, b),
    ensures
        lock_seeded(t0, items.take(idx + 1), b),
{
    let pre = items.take(idx);
    let post = items.take(idx + 1);
    assert(forall|i: int| 0 <= i < idx ==> post[i] == pre[i]);
    assert(post[idx] == items[idx]);
    // listed() after the step
    assert forall|n: PackageName, nv: PackageNv| listed(a, n).contains(nv) implies #[trigger] listed(b, n).contains(nv) by {
        match lock_nv(items[idx]) {
            None => {},
            Some(s) => {
                if n == s.name {
                    let old_seq = listed(a, n);
                    let j = choose|j: int| 0 <= j < old_seq.len() && old_seq[j] == nv;
                    if !old_seq.contains(s) { assert(old_seq.push(s)[j] == nv); }
                } else {
                    assert(a.packages_by_name@.contains_key(n));
                }
            },
        }
    }
    assert forall|i: int| 0 <= i < post.len() && lock_nv(#[trigger] post[i]) is Some implies
        listed(b, lock_nv(post[i]).unwrap().name).contains(lock_nv(post[i]).unwrap()) by {
        if i < idx {
            assert(lock_nv(pre[i]) is Some);
            assert(listed(a, lock_nv(pre[i]).unwrap().name).contains(lock_nv(pre[i]).unwrap()));
        } else {
            let s = lock_nv(items[idx]).unwrap();
            let old_seq = listed(a, s.name);
            if !old_seq.contains(s) { assert(old_seq.push(s)[old_seq.len() as int] == s); }
        }
    }
    assert forall|n: PackageName, nv: PackageNv| #![trigger listed(b, n).contains(nv)] listed(t0, n).contains(nv) implies listed(b, n).contains(nv) by {
        assert(listed(a, n).contains(nv));
    }
    assert forall|n: PackageName, nv: PackageNv| #![trigger listed(b, n).contains(nv)] listed(b, n).contains(nv) implies
        listed(t0, n).contains(nv) || exists|i: int| 0 <= i < post.len() && lock_nv(#[trigger] post[i]) == Some(nv) && nv.name == n by {
        if listed(a, n).contains(nv) {
            if !listed(t0, n).contains(nv) {
                let i = choose|i: int| 0 <= i < pre.len() && lock_nv(#[trigger] pre[i]) == Some(nv) && nv.name == n;
                assert(lock_nv(post[i]) == Some(nv));
            }
        } else {
            match lock_nv(items[idx]) {
                None => {},
                Some(s) => {
                    if n == s.name {
                        let old_seq = listed(a, n);
                        let j = choose|j: int| 0 <= j < listed(b, n).len() && listed(b, n)[j] == nv;
                        if old_seq.contains(s) {} else {
                            if j < old_seq.len() { assert(old_seq[j] == nv); }
                            assert(nv == s);
                        }
                        assert(lock_nv(post[idx]) == Some(nv));
                    } else {
                        if a.packages_by_name@.contains_key(n) {} else { assert(!b.packages_by_name@.contains_key(n)); }
                    }
                },
            }
        }
    }
}
} // verus!
