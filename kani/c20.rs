// Kani harnesses for C20 (included into a scratch copy of the crate as `#[cfg(kani)] mod verif_kani`).
// They run the REAL `ModuleTextSource::try_get_original_bytes` (including its unsafe
// Arc<str> -> Arc<[u8]> reinterpretation) under CBMC's memory model.
// BOUNDED: text length N in 0..=8, ASCII bytes (byte equality does not depend on which scalar
// values the bytes encode) — never counted as a proof.
use crate::graph::ModuleTextSource;
use deno_media_type::encoding::DecodedArcSourceDetailKind;
use std::sync::Arc;

fn ascii_text<const N: usize>() -> ([u8; N], Arc<str>) {
  let bytes: [u8; N] = kani::any();
  let mut i = 0;
  while i < N {
    kani::assume(bytes[i] < 0x80);
    i += 1;
  }
  // ASCII is valid UTF-8
  let s: &str = unsafe { std::str::from_utf8_unchecked(&bytes) };
  (bytes, Arc::from(s))
}

fn check_unchanged<const N: usize>() {
  let (bytes, text) = ascii_text::<N>();
  let src = ModuleTextSource { text, decoded_kind: DecodedArcSourceDetailKind::Unchanged };
  let out = src.try_get_original_bytes();
  // "either nothing or exactly the byte sequence the loader supplied": unchanged decoding means
  // the loaded bytes are the text's bytes
  match out {
    Some(b) => {
      assert!(b.len() == N);
      let mut i = 0;
      while i < N {
        assert!(b[i] == bytes[i]);
        i += 1;
      }
    }
    None => assert!(false),
  }
}

fn check_changed<const N: usize>() {
  let (_bytes, text) = ascii_text::<N>();
  let src = ModuleTextSource { text, decoded_kind: DecodedArcSourceDetailKind::Changed };
  assert!(src.try_get_original_bytes().is_none());
}

fn check_only_bom<const N: usize>() {
  let (bytes, text) = ascii_text::<N>();
  let src = ModuleTextSource { text, decoded_kind: DecodedArcSourceDetailKind::OnlyUtf8Bom };
  match src.try_get_original_bytes() {
    Some(b) => {
      assert!(b.len() == N + 3);
      assert!(b[0] == 0xEF && b[1] == 0xBB && b[2] == 0xBF);
      let mut i = 0;
      while i < N {
        assert!(b[i + 3] == bytes[i]);
        i += 1;
      }
    }
    None => assert!(false),
  }
}

fn check_new_unknown<const N: usize>() {
  let (_bytes, text) = ascii_text::<N>();
  let src = ModuleTextSource::new_unknown(text);
  // a source of unknown provenance never claims to have the original bytes
  assert!(src.try_get_original_bytes().is_none());
}

macro_rules! harness {
  ($name:ident, $f:ident, $n:expr) => {
    #[kani::proof]
    #[kani::unwind(13)]
    fn $name() {
      $f::<$n>();
    }
  };
}
harness!(c20_unchanged_0, check_unchanged, 0);
harness!(c20_unchanged_1, check_unchanged, 1);
harness!(c20_unchanged_3, check_unchanged, 3);
harness!(c20_unchanged_8, check_unchanged, 8);
harness!(c20_changed_0, check_changed, 0);
harness!(c20_changed_4, check_changed, 4);
harness!(c20_only_bom_0, check_only_bom, 0);
harness!(c20_only_bom_2, check_only_bom, 2);
harness!(c20_only_bom_8, check_only_bom, 8);
harness!(c20_new_unknown_3, check_new_unknown, 3);

// thorough tier: larger texts (still BOUNDED)
macro_rules! harness_t {
  ($name:ident, $f:ident, $n:expr) => {
    #[kani::proof]
    #[kani::unwind(26)]
    fn $name() {
      $f::<$n>();
    }
  };
}
harness_t!(t20_unchanged_16, check_unchanged, 16);
harness_t!(t20_unchanged_21, check_unchanged, 21);
harness_t!(t20_only_bom_13, check_only_bom, 13);
harness_t!(t20_only_bom_20, check_only_bom, 20);
harness_t!(t20_changed_16, check_changed, 16);

// ---- charset detection of the pinned dependency (deno_media_type::encoding::detect_charset_local_file):
// "a byte-order mark, or UTF-8 by default".  BOUNDED by the input length N (the function only reads the
// first two bytes and the length).
fn check_detect_local<const N: usize>() {
  let bytes: [u8; N] = kani::any();
  let r = deno_media_type::encoding::detect_charset_local_file(&bytes);
  let code: u8 = if N >= 2 && bytes[0] == 0xFF && bytes[1] == 0xFE {
    1
  } else if N >= 2 && bytes[0] == 0xFE && bytes[1] == 0xFF {
    2
  } else {
    0
  };
  let rb = r.as_bytes();
  match code {
    1 => assert!(rb.len() == 8 && rb[0] == b'u' && rb[4] == b'1' && rb[5] == b'6' && rb[6] == b'l' && rb[7] == b'e'),
    2 => assert!(rb.len() == 8 && rb[0] == b'u' && rb[4] == b'1' && rb[5] == b'6' && rb[6] == b'b' && rb[7] == b'e'),
    _ => assert!(rb.len() == 5 && rb[0] == b'u' && rb[1] == b't' && rb[2] == b'f' && rb[3] == b'-' && rb[4] == b'8'),
  }
}
#[kani::proof]
#[kani::unwind(13)]
fn c20_detect_local_0() { check_detect_local::<0>() }
#[kani::proof]
#[kani::unwind(13)]
fn c20_detect_local_1() { check_detect_local::<1>() }
#[kani::proof]
#[kani::unwind(13)]
fn c20_detect_local_2() { check_detect_local::<2>() }
#[kani::proof]
#[kani::unwind(13)]
fn c20_detect_local_5() { check_detect_local::<5>() }
