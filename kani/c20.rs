// Kani harnesses for C20 (included into a scratch copy of the crate as `#[cfg(kani)] mod verif_kani`).
// They run the REAL `ModuleTextSource::try_get_original_bytes` (including its unsafe
// Arc<str> -> Arc<[u8]> reinterpretation) under CBMC's memory model.
// BOUNDED: text length N in 0..=8, ASCII bytes (byte equality does not depend on which scalar
// values the bytes encode) — never counted as a proof.
use crate::graph::ModuleTextSource;
use deno_media_type::encoding::DecodedArcSourceDetailKind;
use std::sync::Arc;

fn ascii_text<const N: usize>() -> ([u8; N], Arc<str>) {
  let bytes: [u8; N] = kani::any();
  let mut i = 0;
  while i < N {
    kani::assume(bytes[i] < 0x80);
    i += 1;
  }
  // ASCII is valid UTF-8
  let s: &str = unsafe { std::str::from_utf8_unchecked(&bytes) };
  (bytes, Arc::from(s))
}

fn check_unchanged<const N: usize>() {
  let (bytes, text) = ascii_text::<N>();
  let src = ModuleTextSource { text, decoded_kind: DecodedArcSourceDetailKind::Unchanged };
  let out = src.try_get_original_bytes();
  // "either nothing or exactly the byte sequence the loader supplied": unchanged decoding means
  // the loaded bytes are the text's bytes
  match out {
    Some(b) => {
      assert!(b.len() == N);
      let mut i = 0;
      while i < N {
        assert!(b[i] == bytes[i]);
        i += 1;
      }
    }
    None => assert!(false),
  }
}

fn check_changed<const N: usize>() {
  let (_bytes, text) = ascii_text::<N>();
  let src = ModuleTextSource { text, decoded_kind: DecodedArcSourceDetailKind::Changed };
  assert!(src.try_get_original_bytes().is_none());
}

fn check_only_bom<const N: usize>() {
  let (bytes, text) = ascii_text::<N>();
  let src = ModuleTextSource { text, decoded_kind: DecodedArcSourceDetailKind::OnlyUtf8Bom };
  match src.try_get_original_bytes() {
    Some(b) => {
      assert!(b.len() == N + 3);
      assert!(b[0] == 0xEF && b[1] == 0xBB && b[2] == 0xBF);
      let mut i = 0;
      while i < N {
        assert!(b[i + 3] == bytes[i]);
        i += 1;
      }
    }
    None => assert!(false),
  }
}

fn check_new_unknown<const N: usize>() {
  let (_bytes, text) = ascii_text::<N>();
  let src = ModuleTextSource::new_unknown(text);
  // a source of unknown provenance never claims to have the original bytes
  assert!(src.try_get_original_bytes().is_none());
}

macro_rules! harness {
  ($name:ident, $f:ident, $n:expr) => {
    #[kani::proof]
    #[kani::unwind(13)]
    fn $name() {
      $f::<$n>();
    }
  };
}
harness!(c20_unchanged_0, check_unchanged, 0);
harness!(c20_unchanged_1, check_unchanged, 1);
harness!(c20_unchanged_3, check_unchanged, 3);
harness!(c20_unchanged_8, check_unchanged, 8);
harness!(c20_changed_0, check_changed, 0);
harness!(c20_changed_4, check_changed, 4);
harness!(c20_only_bom_0, check_only_bom, 0);
harness!(c20_only_bom_2, check_only_bom, 2);
harness!(c20_only_bom_8, check_only_bom, 8);
harness!(c20_new_unknown_3, check_new_unknown, 3);
