// Stand-ins for what ModuleGraph::build_fast_check_type_graph (src/graph.rs) calls: the fast-check pipeline
// (proved about in the unit `fastcheck`, opaque here), the symbol table, the ES parser, fill_module_dependencies.
// (DESIGN.md §3.3).  Nothing here is verified.
pub struct ModuleInfo { pub dependencies: Vec<DependencyDescriptor> }
pub struct DependencyDescriptor { _p: u64 }
impl Clone for DependencyDescriptor { fn clone(&self) -> Self { unimplemented!() } }
pub struct WorkspaceMember { _p: u64 }
impl WorkspaceMember { pub fn as_nv(&self) -> PackageNv { unimplemented!() } }
pub struct PackageNv { _p: u64 }
impl Clone for PackageNv { fn clone(&self) -> Self { unimplemented!() } }
pub struct NullFileSystem;
pub struct FileSystemStandIn { _p: u64 }
pub trait JsrUrlProvider {}
pub trait Resolver {}
pub mod ast {
  pub trait EsParser {}
  #[derive(Default)] pub struct CapturingModuleAnalyzer { _p: u64 }
  impl EsParser for CapturingModuleAnalyzer {}
}
pub mod symbols {
  pub struct RootSymbol<'a> { _p: &'a u64 }
  impl<'a> RootSymbol<'a> { pub fn new(_g: &'a crate::ModuleGraph, _p: &'a dyn crate::ast::EsParser) -> Self { unimplemented!() } }
}
pub mod fast_check {
  pub use super::{FastCheckDiagnostic, FastCheckDtsModule};
  pub trait FastCheckCache {}
  pub struct TransformOptions<'a> { pub workspace_members: &'a [crate::WorkspaceMember], pub should_error_on_first_diagnostic: bool, pub dts: bool }
  pub struct FastCheckModule { pub module_info: std::sync::Arc<crate::ModuleInfo>, pub text: std::sync::Arc<str>, pub source_map: std::sync::Arc<str>, pub dts: Option<crate::FastCheckDtsModule> }
  pub fn build_fast_check_type_graph<'a>(_c: Option<&'a dyn FastCheckCache>, _j: &'a dyn crate::JsrUrlProvider, _g: &'a crate::ModuleGraph, _r: &'a crate::symbols::RootSymbol<'a>,
      _p: std::collections::VecDeque<crate::PackageNv>, _o: &TransformOptions) -> Vec<(crate::Url, Result<FastCheckModule, Vec<crate::FastCheckDiagnostic>>)> { unimplemented!() }
}
pub fn fill_module_dependencies(_k: GraphKind, _m: MediaType, _d: Vec<DependencyDescriptor>, _s: &Url, _deps: &mut IndexMap<String, Dependency>,
    _fs: &NullFileSystem, _j: &dyn JsrUrlProvider, _r: Option<&dyn Resolver>) { unimplemented!() }
impl PackageSpecifiers { pub fn top_level_packages(&self) -> &std::collections::BTreeSet<PackageNv> { unimplemented!() } }

verus! {
#[verifier::external_type_specification] #[verifier::external_body] pub struct ExDependencyDescriptor(DependencyDescriptor);
#[verifier::external_type_specification] #[verifier::external_body] pub struct ExWorkspaceMember(WorkspaceMember);
#[verifier::external_type_specification] #[verifier::external_body] pub struct ExFcgPackageNv(PackageNv);
#[verifier::external_type_specification] pub struct ExNullFileSystem(NullFileSystem);
#[verifier::external_type_specification] pub struct ExFcgModuleInfo(ModuleInfo);
#[verifier::external_type_specification] #[verifier::external_body] pub struct ExCapturingModuleAnalyzer(ast::CapturingModuleAnalyzer);
#[verifier::external_type_specification] #[verifier::external_body] pub struct ExFcgRootSymbol<'a>(symbols::RootSymbol<'a>);
#[verifier::external_type_specification] pub struct ExFcgTransformOptions<'a>(fast_check::TransformOptions<'a>);
#[verifier::external_type_specification] pub struct ExFcgFastCheckModule(fast_check::FastCheckModule);
#[verifier::external_trait_specification] pub trait ExEsParser { type ExternalTraitSpecificationFor: ast::EsParser; }
#[verifier::external_trait_specification] pub trait ExFcgJsrUrlProvider { type ExternalTraitSpecificationFor: JsrUrlProvider; }
#[verifier::external_trait_specification] pub trait ExFcgResolver { type ExternalTraitSpecificationFor: Resolver; }
#[verifier::external_trait_specification] pub trait ExFcgFastCheckCache { type ExternalTraitSpecificationFor: fast_check::FastCheckCache; }

pub assume_specification[ <ast::CapturingModuleAnalyzer as Default>::default ]() -> (r: ast::CapturingModuleAnalyzer);
pub assume_specification<'a>[ symbols::RootSymbol::<'a>::new ](g: &'a ModuleGraph, p: &'a dyn ast::EsParser) -> (r: symbols::RootSymbol<'a>);
pub assume_specification[ WorkspaceMember::as_nv ](w: &WorkspaceMember) -> (r: PackageNv);
pub assume_specification<'a>[ PackageSpecifiers::top_level_packages ](p: &'a PackageSpecifiers) -> (r: &'a std::collections::BTreeSet<PackageNv>);
/// the fast-check pipeline (contract proved in the unit `fastcheck`; here only: a deterministic function of the
/// graph and the options, and every specifier it reports is a module of the graph — the code unwraps the slot)
pub uninterp spec fn fc_modules(g: ModuleGraph, dts: bool, ws: Seq<WorkspaceMember>, first: bool) -> Seq<(Url, Result<fast_check::FastCheckModule, Vec<FastCheckDiagnostic>>)>;
pub assume_specification<'a>[ fast_check::build_fast_check_type_graph ](c: Option<&'a dyn fast_check::FastCheckCache>, j: &'a dyn JsrUrlProvider, g: &'a ModuleGraph, r: &'a symbols::RootSymbol<'a>,
      p: std::collections::VecDeque<PackageNv>, o: &fast_check::TransformOptions) -> (m: Vec<(Url, Result<fast_check::FastCheckModule, Vec<FastCheckDiagnostic>>)>)
    ensures
        m@ == fc_modules(*g, o.dts, o.workspace_members@, o.should_error_on_first_diagnostic),
        forall|i: int| 0 <= i < m@.len() ==> g.module_slots@.contains_key((#[trigger] m@[i]).0);
/// the dependencies the emitted module's own module info declares (fill_module_dependencies, types-only)
pub uninterp spec fn fc_deps(media_type: MediaType, d: Seq<DependencyDescriptor>, s: Url) -> IndexMap<String, Dependency>;
pub assume_specification[ fill_module_dependencies ](k: GraphKind, m: MediaType, d: Vec<DependencyDescriptor>, s: &Url, deps: &mut IndexMap<String, Dependency>,
      fs: &NullFileSystem, j: &dyn JsrUrlProvider, r: Option<&dyn Resolver>)
    requires im_keys(*old(deps)).len() == 0,
    ensures k == GraphKind::TypesOnly ==> *final(deps) == fc_deps(m, d@, *s);

/// `set.iter().cloned().collect::<VecDeque<_>>()` (R7 chain wrapper)
#[verifier::external_body]
pub fn vx_set_to_deque(s: &std::collections::BTreeSet<PackageNv>) -> (r: std::collections::VecDeque<PackageNv>)
    ensures r@.len() == s@.len(),
{ s.iter().cloned().collect() }
/// `slice.iter().map(f)` (R7 chain wrapper; nothing is claimed about the result)
#[verifier::external_body]
pub fn vx_members_map<'a, F: FnMut(&'a WorkspaceMember) -> PackageNv>(ws: &'a [WorkspaceMember], f: F) -> (r: std::iter::Map<std::slice::Iter<'a, WorkspaceMember>, F>)
{ ws.iter().map(f) }
/// `deque.extend(iterator)` (R7 wrapper; nothing is claimed about the contents)
#[verifier::external_body]
pub fn vx_deque_extend<I: Iterator<Item = PackageNv>>(d: &mut std::collections::VecDeque<PackageNv>, it: I)
    ensures final(d)@.len() >= old(d)@.len(),
{ d.extend(it) }
pub assume_specification<T, A: std::alloc::Allocator>[ std::collections::VecDeque::<T, A>::is_empty ](d: &std::collections::VecDeque<T, A>) -> (r: bool)
    ensures r == (d@.len() == 0);
pub assume_specification<K, V>[ <IndexMap<K, V> as Default>::default ]() -> (r: IndexMap<K, V>)
    ensures im_keys(r).len() == 0;
/// `Arc::try_unwrap(a)`: the value either way
pub assume_specification<T, A: std::alloc::Allocator>[ std::sync::Arc::<T, A>::try_unwrap ](a: std::sync::Arc<T, A>) -> (r: Result<T, std::sync::Arc<T, A>>)
    ensures match r { Ok(v) => v == *a, Err(b) => b == a };
pub assume_specification[ <DependencyDescriptor as Clone>::clone ](d: &DependencyDescriptor) -> (c: DependencyDescriptor)
    ensures c == *d;
} // verus!
