// Stand-ins for what Builder::visit_module_dependencies calls outside itself: Builder::load (every load request; the
// unit loadreq has its contract), the specifier classification and mark_jsr_dep / mark_npm_dep behind maybe_mark_dep,
// the import attribute test, slice iterator adapters (DESIGN.md §3.3).  Nothing here is verified.
pub struct JsrPackageVersionInfo { _p: u64 }
pub struct JsrPackageReqReference { _p: u64 }
pub struct PendingQueue { _p: u64 }
impl Clone for JsrPackageVersionInfoExt { fn clone(&self) -> Self { unimplemented!() } }
impl Clone for AttributeTypeWithRange { fn clone(&self) -> Self { unimplemented!() } }
impl ImportAttributes { pub fn has_asset(&self) -> bool { unimplemented!() } }
impl<'a, 'graph> Builder<'a, 'graph> {
  pub fn parse_load_specifier_kind(&self, _s: &Url, _r: Option<&Range>) -> Result<LoadSpecifierKind, ModuleError> { unimplemented!() }
  pub fn maybe_mark_dep(&mut self, _k: &LoadSpecifierKind, _r: Option<&Range>) { unimplemented!() }
  pub fn load(&mut self, _o: LoadOptionsRef) { unimplemented!() }
}

verus! {
#[verifier::external_type_specification] #[verifier::external_body] pub struct ExVdJsrPackageVersionInfo(JsrPackageVersionInfo);
#[verifier::external_type_specification] #[verifier::external_body] pub struct ExVdJsrPackageReqReference(JsrPackageReqReference);
#[verifier::external_type_specification] #[verifier::external_body] pub struct ExVdPendingQueue(PendingQueue);
pub struct PendingState<'a> { pub pending: PendingQueue, pub dynamic_branches: std::collections::HashMap<Url, PendingDynamicBranch>, pub _m: Ghost<&'a u8> }
pub assume_specification[ <JsrPackageVersionInfoExt as Clone>::clone ](v: &JsrPackageVersionInfoExt) -> (c: JsrPackageVersionInfoExt) ensures c == *v;
pub assume_specification[ <AttributeTypeWithRange as Clone>::clone ](v: &AttributeTypeWithRange) -> (c: AttributeTypeWithRange) ensures c == *v;
pub assume_specification[ ImportAttributes::has_asset ](a: &ImportAttributes) -> (r: bool);
pub open spec fn opt_range(r: Option<&Range>) -> Option<Range> { match r { Some(x) => Some(*x), None => None } }

/// a load request as far as the properties look at it: what is asked for, on whose behalf, dynamically or not
pub struct LoadRequest { pub specifier: Url, pub referrer: Option<Range>, pub in_dynamic_branch: bool }
/// GHOST LOG of the load requests the builder has made (Builder::load is the only way to make one): a view of the
/// queue of in-flight loads
pub uninterp spec fn pending_log(q: PendingQueue) -> Seq<LoadRequest>;
pub open spec fn load_log(b: Builder<'_, '_>) -> Seq<LoadRequest> { pending_log(b.state.pending) }
/// the requirements attributed so far through maybe_mark_dep (specifier as written, referrer): a view of the package table
pub uninterp spec fn marks_of(t: PackageSpecifiers) -> Seq<(Url, Option<Range>)>;
pub open spec fn marked_log(b: Builder<'_, '_>) -> Seq<(Url, Option<Range>)> { marks_of((*b.graph).packages) }
/// what these steps leave alone: the builder's mode flags and the dynamic-branch queue
pub open spec fn vd_frame(b0: Builder<'_, '_>, b1: Builder<'_, '_>) -> bool {
    b1.in_dynamic_branch == b0.in_dynamic_branch && b1.skip_dynamic_deps == b0.skip_dynamic_deps
      && (*b1.graph).graph_kind == (*b0.graph).graph_kind && b1.state.dynamic_branches == b0.state.dynamic_branches
      && b1.resolved_roots == b0.resolved_roots && (*b1.graph).roots == (*b0.graph).roots
      && (*b1.graph).imports == (*b0.graph).imports
}
pub assume_specification<'a, 'graph>[ Builder::<'a, 'graph>::load ](b: &mut Builder<'a, 'graph>, o: LoadOptionsRef)
    ensures
        load_log(*final(b)) == load_log(*old(b)).push(LoadRequest { specifier: *o.specifier, referrer: opt_range(o.maybe_range), in_dynamic_branch: o.in_dynamic_branch }),
        marked_log(*final(b)) == marked_log(*old(b)), vd_frame(*old(b), *final(b));
/// how a specifier is to be loaded: a deterministic function (see the unit loadreq); ASSUMED: the kind it returns for
/// a specifier is a kind of that specifier
pub uninterp spec fn load_kind(s: Url, r: Option<Range>) -> Result<LoadSpecifierKind, ModuleError>;
pub assume_specification<'a, 'graph>[ Builder::<'a, 'graph>::parse_load_specifier_kind ](b: &Builder<'a, 'graph>, s: &Url, r: Option<&Range>) -> (k: Result<LoadSpecifierKind, ModuleError>)
    ensures k == load_kind(*s, opt_range(r)), k is Ok ==> kind_of_specifier(k->Ok_0) == *s;
/// Builder::maybe_mark_dep (contract proved in the unit loadreq): attributes the requirement of a jsr:/npm: specifier
pub uninterp spec fn kind_of_specifier(k: LoadSpecifierKind) -> Url;
pub assume_specification<'a, 'graph>[ Builder::<'a, 'graph>::maybe_mark_dep ](b: &mut Builder<'a, 'graph>, k: &LoadSpecifierKind, r: Option<&Range>)
    ensures
        marked_log(*final(b)) == marked_log(*old(b)).push((kind_of_specifier(*k), opt_range(r))),
        load_log(*final(b)) == load_log(*old(b)), vd_frame(*old(b), *final(b));
/// `slice.iter().find_map(f)` / `slice.iter().all(f)` (R7 chain wrappers; nothing is claimed about the answer: the
/// asset / source-phase flags of a request are not part of what this unit decides)
#[verifier::external_body]
pub fn vx_slice_find_map<T, B, F: FnMut(&T) -> Option<B>>(v: &Vec<T>, f: F) -> (r: Option<B>)
    requires forall|x: &T| f.requires((x,)),
{ v.iter().find_map(f) }
#[verifier::external_body]
pub fn vx_slice_all<T, F: FnMut(&T) -> bool>(v: &Vec<T>, f: F) -> (r: bool)
    requires forall|x: &T| f.requires((x,)),
{ v.iter().all(f) }
/// `maybe_version_info.map(ToOwned::to_owned)` (R7 wrapper, function value): an owned copy of the version info
#[verifier::external_body]
pub fn vx_version_info_to_owned(o: Option<&JsrPackageVersionInfoExt>) -> (r: Option<JsrPackageVersionInfoExt>)
    ensures match o { Some(v) => r == Some(*v), None => r is None },
{ o.map(ToOwned::to_owned) }
/// `b.then(f)` (R7 wrapper)
#[verifier::external_body]
pub fn vx_then<T, F: FnOnce() -> T>(b: bool, f: F) -> (r: Option<T>)
    requires b ==> f.requires(()),
    ensures b ==> r is Some && f.ensures((), r.unwrap()), !b ==> r is None,
{ b.then(f) }
/// `map.entry(k).or_insert_with(f)` (R7 chain wrapper): a mutable reference to the value under the key, inserting `f()`
/// first when the key is new; all other entries untouched
#[verifier::external_body]
pub fn vx_hash_entry_or_insert_with_mut<'a, K: std::hash::Hash + Eq, V, F: FnOnce() -> V>(map: &'a mut std::collections::HashMap<K, V>, k: K, f: F) -> (r: &'a mut V)
    requires f.requires(()),
    ensures
        old(map)@.contains_key(k) ==> *r == old(map)@[k],
        !old(map)@.contains_key(k) ==> f.ensures((), *r),
        final(map)@ == old(map)@.insert(k, *final(r)),
{ map.entry(k).or_insert_with(f) }
} // verus!
