// indexmap::{IndexMap, IndexSet} stand-ins (insertion-ordered collections) and the ASSUMED specifications of
// the operations the extracted code uses (DESIGN.md §3.3).  Nothing here is verified.
pub struct IndexSet<K> { _k: core::marker::PhantomData<K> }
pub struct IndexSetIter<'a, K> { _m: &'a IndexSet<K> }
impl<K> IndexSet<K> {
  pub fn contains(&self, _k: &K) -> bool { unimplemented!() }
  pub fn iter(&self) -> IndexSetIter<'_, K> { unimplemented!() }
  pub fn len(&self) -> usize { unimplemented!() }
}
impl<K> Clone for IndexSet<K> { fn clone(&self) -> Self { unimplemented!() } }
impl<'a, K> Iterator for IndexSetIter<'a, K> { type Item = &'a K; fn next(&mut self) -> Option<&'a K> { unimplemented!() } }

// indexmap::IndexMap / IndexSet: insertion-ordered maps.  Only the operations the extracted code
// uses exist on the stand-in; each has an assumed specification over the view `im_view`.
pub struct IndexMap<K, V> { _k: core::marker::PhantomData<K>, _v: core::marker::PhantomData<V> }
pub struct IndexMapValues<'a, K, V> { _m: &'a IndexMap<K, V> }
pub struct IndexMapIter<'a, K, V> { _m: &'a IndexMap<K, V> }
impl<K, V> IndexMap<K, V> {
  pub fn get<Q: ?Sized>(&self, _k: &Q) -> Option<&V> { unimplemented!() }
  pub fn values(&self) -> IndexMapValues<'_, K, V> { unimplemented!() }
  pub fn iter(&self) -> IndexMapIter<'_, K, V> { unimplemented!() }
  pub fn len(&self) -> usize { unimplemented!() }
  pub fn is_empty(&self) -> bool { unimplemented!() }
}
impl<K, V> Clone for IndexMap<K, V> { fn clone(&self) -> Self { unimplemented!() } }
impl<'a, K, V> Iterator for IndexMapValues<'a, K, V> { type Item = &'a V; fn next(&mut self) -> Option<&'a V> { unimplemented!() } }
impl<'a, K, V> Iterator for IndexMapIter<'a, K, V> { type Item = (&'a K, &'a V); fn next(&mut self) -> Option<(&'a K, &'a V)> { unimplemented!() } }
impl<'a, K, V> IntoIterator for &'a IndexMap<K, V> { type Item = (&'a K, &'a V); type IntoIter = IndexMapIter<'a, K, V>; fn into_iter(self) -> IndexMapIter<'a, K, V> { unimplemented!() } }


verus! {

// ---- IndexMap<String, V>: view = insertion-ordered sequence of (key text, value), keys distinct
#[verifier::external_type_specification]
#[verifier::external_body]
#[verifier::reject_recursive_types(K)]
#[verifier::accept_recursive_types(V)]
pub struct ExIndexMap<K, V>(IndexMap<K, V>);

#[verifier::external_type_specification]
#[verifier::external_body]
#[verifier::reject_recursive_types(K)]
#[verifier::accept_recursive_types(V)]
pub struct ExIndexMapValues<'a, K, V>(IndexMapValues<'a, K, V>);

#[verifier::external_type_specification]
#[verifier::external_body]
#[verifier::reject_recursive_types(K)]
#[verifier::accept_recursive_types(V)]
pub struct ExIndexMapIter<'a, K, V>(IndexMapIter<'a, K, V>);

#[verifier::external_type_specification]
#[verifier::external_body]
#[verifier::reject_recursive_types(K)]
pub struct ExIndexSet<K>(IndexSet<K>);

#[verifier::external_type_specification]
#[verifier::external_body]
#[verifier::reject_recursive_types(K)]
pub struct ExIndexSetIter<'a, K>(IndexSetIter<'a, K>);

/// IndexSet view: insertion-ordered sequence without duplicates
pub uninterp spec fn is_seq<K>(s: IndexSet<K>) -> Seq<K>;
pub proof fn axiom_index_set_wf<K>(s: IndexSet<K>)
    ensures is_seq(s).no_duplicates(), is_seq(s).len() < usize::MAX,
{ admit(); }
pub assume_specification<K>[ IndexSet::<K>::contains ](s: &IndexSet<K>, k: &K) -> (r: bool)
    ensures r == is_seq(*s).contains(*k);
pub assume_specification<K>[ IndexSet::<K>::iter ](s: &IndexSet<K>) -> (r: IndexSetIter<'_, K>)
    ensures
        r.obeys_prophetic_iter_laws(),
        r.remaining().len() == is_seq(*s).len(),
        forall|i: int| 0 <= i < is_seq(*s).len() ==> *(#[trigger] r.remaining()[i]) == is_seq(*s)[i];
pub assume_specification<K>[ IndexSet::<K>::len ](s: &IndexSet<K>) -> (r: usize)
    ensures r == is_seq(*s).len();

pub uninterp spec fn im_keys<K, V>(m: IndexMap<K, V>) -> Seq<K>;
pub uninterp spec fn im_vals<K, V>(m: IndexMap<K, V>) -> Seq<V>;

/// does the stored key `k` equal the lookup key `q` (indexmap's `Equivalent`)
pub uninterp spec fn key_eq<K, Q: ?Sized>(k: K, q: &Q) -> bool;

pub proof fn axiom_key_eq()
    ensures
        forall|k: String, q: &str| #[trigger] key_eq(k, q) == (k@ == q@),
        forall|k: Url, q: &Url| #[trigger] key_eq(k, q) == (k == *q),
{ admit(); }

pub proof fn axiom_index_map_wf<K, V>(m: IndexMap<K, V>)
    ensures
        im_keys(m).len() == im_vals(m).len(),
        im_keys(m).no_duplicates(),
{ admit(); }

/// `IndexMap<String, V>` keys are distinct as texts
pub proof fn axiom_index_map_string_keys<V>(m: IndexMap<String, V>)
    ensures
        forall|i: int, j: int| 0 <= i < im_keys(m).len() && 0 <= j < im_keys(m).len() && im_keys(m)[i]@ == im_keys(m)[j]@ ==> i == j,
{ admit(); }

pub open spec fn im_get<V>(m: IndexMap<String, V>, k: Seq<char>) -> Option<V> {
    if exists|i: int| 0 <= i < im_keys(m).len() && im_keys(m)[i]@ == k {
        let i = choose|i: int| 0 <= i < im_keys(m).len() && im_keys(m)[i]@ == k;
        Some(im_vals(m)[i])
    } else { None }
}
pub open spec fn im_get_url<V>(m: IndexMap<Url, V>, k: Url) -> Option<V> {
    if exists|i: int| 0 <= i < im_keys(m).len() && im_keys(m)[i] == k {
        let i = choose|i: int| 0 <= i < im_keys(m).len() && im_keys(m)[i] == k;
        Some(im_vals(m)[i])
    } else { None }
}

pub assume_specification<'a, K, V, Q: ?Sized>[ IndexMap::<K, V>::get::<Q> ](m: &'a IndexMap<K, V>, k: &Q) -> (r: Option<&'a V>)
    ensures
        r is Some <==> (exists|i: int| 0 <= i < im_keys(*m).len() && key_eq(#[trigger] im_keys(*m)[i], k)),
        r is Some ==> (exists|i: int| 0 <= i < im_keys(*m).len() && key_eq(#[trigger] im_keys(*m)[i], k) && im_vals(*m)[i] == *r.unwrap());

pub assume_specification<K, V>[ IndexMap::<K, V>::values ](m: &IndexMap<K, V>) -> (r: IndexMapValues<'_, K, V>)
    ensures
        r.obeys_prophetic_iter_laws(),
        r.remaining().len() == im_vals(*m).len(),
        forall|i: int| 0 <= i < im_vals(*m).len() ==> *(#[trigger] r.remaining()[i]) == im_vals(*m)[i];

pub assume_specification<K, V>[ IndexMap::<K, V>::len ](m: &IndexMap<K, V>) -> (r: usize)
    ensures r == im_vals(*m).len();

pub assume_specification<K, V>[ IndexMap::<K, V>::is_empty ](m: &IndexMap<K, V>) -> (r: bool)
    ensures r == (im_vals(*m).len() == 0);

} // verus!
