// IndexMap::values_mut (shared by the units that mutate the values of an IndexMap in place).  Nothing here is verified.
pub struct IndexMapValuesMut<'a, K, V> { _m: &'a mut IndexMap<K, V> }
impl<'a, K, V> Iterator for IndexMapValuesMut<'a, K, V> { type Item = &'a mut V; fn next(&mut self) -> Option<&'a mut V> { unimplemented!() } }
impl<K, V> IndexMap<K, V> {
  pub fn values_mut(&mut self) -> IndexMapValuesMut<'_, K, V> { unimplemented!() }
}
verus! {
#[verifier::external_type_specification]
#[verifier::external_body]
#[verifier::reject_recursive_types(K)]
#[verifier::accept_recursive_types(V)]
pub struct ExIndexMapValuesMut<'a, K, V>(IndexMapValuesMut<'a, K, V>);
/// `map.values_mut()`: mutable references to the values in order; the map's values afterwards are
/// the final values of those references, keys unchanged
pub assume_specification<'a, K, V>[ IndexMap::<K, V>::values_mut ](m: &'a mut IndexMap<K, V>) -> (r: IndexMapValuesMut<'a, K, V>)
    ensures
        r.obeys_prophetic_iter_laws(),
        r.remaining().len() == im_vals(*old(m)).len(),
        forall|i: int| 0 <= i < r.remaining().len() ==> *(#[trigger] r.remaining()[i]) == im_vals(*old(m))[i],
        forall|i: int| 0 <= i < r.remaining().len() ==> *final(#[trigger] r.remaining()[i]) == im_vals(*final(m))[i],
        im_keys(*final(m)) == im_keys(*old(m)),
        im_vals(*final(m)).len() == im_vals(*old(m)).len();

} // verus!
