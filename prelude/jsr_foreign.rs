// Stand-ins for what Builder::{jsr_unification_decides, resolve_jsr_nv} and validate_jsr_specifier touch
// outside src/packages.rs (DESIGN.md §3.3).  Nothing here is verified.
use std::iter::Flatten;

verus! {

/// R9: `Cow<'a, T>` is read through `Deref` only in the extracted functions; it is replaced by `&'a T`
pub type Cow<'a, T> = &'a T;

/// src/source/mod.rs `Reporter` (only `on_resolve` is called by the extracted code; it has no effect on the graph)
pub trait Reporter {
    fn on_resolve(&self, req: &PackageReq, package_nv: &PackageNv);
}

#[verifier::external_type_specification]
#[verifier::external_body]
#[verifier::reject_recursive_types(I)]
pub struct ExFlatten<I: Iterator>(Flatten<I>) where <I as Iterator>::Item: IntoIterator;

#[verifier::external_type_specification]
#[verifier::external_body]
#[verifier::reject_recursive_types(A)]
pub struct ExOptionIntoIter<A>(std::option::IntoIter<A>);

/// `OPT.into_iter().flatten()` on an `Option<&Vec<T>>` (R7 chain wrapper): the elements of the vector, in order,
/// or nothing
#[verifier::external_body]
pub fn vx_opt_vec_iter<'a, T>(o: Option<&'a Vec<T>>) -> (r: Flatten<std::option::IntoIter<&'a Vec<T>>>)
    ensures
        r.obeys_prophetic_iter_laws(),
        o is None ==> r.remaining().len() == 0,
        o is Some ==> r.remaining().len() == o.unwrap()@.len(),
        o is Some ==> forall|i: int| #![trigger r.remaining()[i]] #![trigger o.unwrap()@[i]] 0 <= i < o.unwrap()@.len() ==> *(r.remaining()[i]) == o.unwrap()@[i],
{
    o.into_iter().flatten()
}

pub assume_specification[ <PackageName as std::ops::Deref>::deref ](n: &PackageName) -> (s: &str)
    ensures s@ == pn_text(*n);

pub assume_specification[ <Version as Clone>::clone ](v: &Version) -> (c: Version)
    ensures c == *v;

/// PackageName is a string type: equal text means equal name (assumed: StackString equality is text equality)
pub proof fn axiom_package_name_text_injective()
    ensures forall|a: PackageName, b: PackageName| pn_text(a) == pn_text(b) ==> a == b,
{ admit(); }

} // verus!
// ---- deno_semver pieces used by validate_jsr_specifier / fill_from_lockfile
pub struct VersionParseError { _p: u64 }
impl Version { pub fn parse_standard(_t: &str) -> Result<Version, VersionParseError> { unimplemented!() } }
pub struct VersionRangeSet { _p: u64 }
pub struct SmallStackString { _p: u64 }
impl Clone for SmallStackString { fn clone(&self) -> Self { unimplemented!() } }
pub struct PackageReqReferenceParseError { _p: u64 }
pub struct JsrPackageReqReference { _p: u64 }
impl JsrPackageReqReference {
  pub fn from_specifier(_u: &Url) -> Result<JsrPackageReqReference, PackageReqReferenceParseError> { unimplemented!() }
  pub fn req(&self) -> &PackageReq { unimplemented!() }
}
impl VersionReq { pub fn inner(&self) -> &RangeSetOrTag { unimplemented!() } }
pub mod deno_semver { pub mod package { pub use crate::PackageKind; } }

verus! {
#[verifier::external_type_specification] #[verifier::external_body] pub struct ExVersionParseError(VersionParseError);
#[verifier::external_type_specification] #[verifier::external_body] pub struct ExVersionRangeSet(VersionRangeSet);
#[verifier::external_type_specification] #[verifier::external_body] pub struct ExSmallStackString(SmallStackString);
#[verifier::external_type_specification] #[verifier::external_body] pub struct ExPackageReqReferenceParseError(PackageReqReferenceParseError);
#[verifier::external_type_specification] #[verifier::external_body] pub struct ExJsrPackageReqReference(JsrPackageReqReference);

/// deno_semver::RangeSetOrTag (transparent: the code matches on it)
pub enum RangeSetOrTag { RangeSet(VersionRangeSet), Tag(SmallStackString) }

pub uninterp spec fn version_parse_standard(t: Seq<char>) -> Option<Version>;
pub assume_specification[ Version::parse_standard ](t: &str) -> (r: Result<Version, VersionParseError>)
    ensures match r { Ok(v) => version_parse_standard(t@) == Some(v), Err(_) => version_parse_standard(t@) is None };

/// what a requirement is made of: a range set or a tag (deterministic accessor)
pub uninterp spec fn vr_inner(r: VersionReq) -> RangeSetOrTag;
pub assume_specification[ VersionReq::inner ](r: &VersionReq) -> (i: &RangeSetOrTag)
    ensures *i == vr_inner(*r);

pub uninterp spec fn jsr_ref_parse(u: Url) -> Result<JsrPackageReqReference, PackageReqReferenceParseError>;
pub uninterp spec fn jsr_ref_req(r: JsrPackageReqReference) -> PackageReq;
pub assume_specification[ JsrPackageReqReference::from_specifier ](u: &Url) -> (r: Result<JsrPackageReqReference, PackageReqReferenceParseError>)
    ensures r == jsr_ref_parse(*u);
pub assume_specification[ JsrPackageReqReference::req ](r: &JsrPackageReqReference) -> (q: &PackageReq)
    ensures *q == jsr_ref_req(*r);
pub assume_specification[ <SmallStackString as Clone>::clone ](s: &SmallStackString) -> (c: SmallStackString)
    ensures c == *s;

/// `RESULT.map_err(f)` (R7 wrapper)
#[verifier::external_body]
pub fn vx_map_err<T, E, F, O: FnOnce(E) -> F>(r: Result<T, E>, op: O) -> (out: Result<T, F>)
    requires r is Err ==> op.requires((r->Err_0,)),
    ensures
        r is Ok ==> out is Ok && out->Ok_0 == r->Ok_0,
        r is Err ==> out is Err && op.ensures((r->Err_0,), out->Err_0),
{
    r.map_err(op)
}
} // verus!
