// Rule R7 (method chains): std map entry API, wrapped so that the two-call chain has ONE assumed
// specification over the map view.  The wrapper body is literally the original chain.
use std::collections::BTreeMap as StdBTreeMap;
verus! {

/// `map.entry(k).or_insert(v)` (result discarded): first writer wins
#[verifier::external_body]
pub fn vx_btree_entry_or_insert<K: Ord, V>(map: &mut StdBTreeMap<K, V>, k: K, v: V)
    requires vstd::laws_cmp::obeys_cmp_spec::<K>(),
    ensures
        final(map)@ == (if old(map)@.contains_key(k) { old(map)@ } else { old(map)@.insert(k, v) }),
{
    map.entry(k).or_insert(v);
}

} // verus!
