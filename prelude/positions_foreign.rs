verus! {
} // verus!
