verus! {
} // verus!
// deno_ast source positions (opaque): `pos + n`, `pos - n`, and the (line, column) lookup
#[derive(Clone, Copy)]
pub struct SourcePos { _p: usize }
impl std::ops::Add<usize> for SourcePos { type Output = SourcePos; fn add(self, _n: usize) -> SourcePos { unimplemented!() } }
impl std::ops::Sub<usize> for SourcePos { type Output = SourcePos; fn sub(self, _n: usize) -> SourcePos { unimplemented!() } }
pub struct SourceTextInfo { _p: usize }
pub struct LineAndColumnIndex { pub line_index: usize, pub column_index: usize }
impl SourceTextInfo { pub fn line_and_column_index(&self, _p: SourcePos) -> LineAndColumnIndex { unimplemented!() } }
pub mod deno_ast { pub use super::{SourcePos, SourceTextInfo}; }
verus! {
#[verifier::external_type_specification] #[verifier::external_body] pub struct ExSourcePos(SourcePos);
#[verifier::external_type_specification] #[verifier::external_body] pub struct ExSourceTextInfo(SourceTextInfo);
/// byte offset of a source position
pub uninterp spec fn sp_val(p: SourcePos) -> int;
/// the (line, character) position of a byte offset in a text (deno_ast `line_and_column_index`)
pub uninterp spec fn pos_of(ti: SourceTextInfo, off: int) -> Position;

#[verifier::external_type_specification] pub struct ExLineAndColumnIndex(LineAndColumnIndex);
pub assume_specification[ SourceTextInfo::line_and_column_index ](ti: &SourceTextInfo, p: SourcePos) -> (r: LineAndColumnIndex)
    ensures r.line_index == pos_of(*ti, sp_val(p)).line, r.column_index == pos_of(*ti, sp_val(p)).character;
pub uninterp spec fn sp_mk(off: int) -> SourcePos;
impl vstd::std_specs::ops::AddSpecImpl<usize> for SourcePos {
    open spec fn obeys_add_spec() -> bool { false }
    open spec fn add_req(self, rhs: usize) -> bool { true }
    open spec fn add_spec(self, rhs: usize) -> SourcePos { sp_mk(sp_val(self) + rhs) }
}
impl vstd::std_specs::ops::SubSpecImpl<usize> for SourcePos {
    open spec fn obeys_sub_spec() -> bool { false }
    open spec fn sub_req(self, rhs: usize) -> bool { true }
    open spec fn sub_spec(self, rhs: usize) -> SourcePos { sp_mk(sp_val(self) - rhs) }
}
pub assume_specification[ <SourcePos as std::ops::Add<usize>>::add ](p: SourcePos, n: usize) -> (r: SourcePos)
    ensures sp_val(r) == sp_val(p) + n;
pub assume_specification[ <SourcePos as std::ops::Sub<usize>>::sub ](p: SourcePos, n: usize) -> (r: SourcePos)
    ensures sp_val(r) == sp_val(p) - n;
} // verus!
