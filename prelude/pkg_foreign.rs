// Stand-ins for deno_semver::package::{PackageNv, PackageKind}, jsr::JsrDepPackageReq and the std
// map entry API used by PackageSpecifiers (ASSUMED specs).
pub type StackString = PackageName;
#[derive(PartialEq, Eq, PartialOrd, Ord, Hash)]
pub struct JsrDepPackageReqOpaque { _p: u64 }
impl Clone for JsrDepPackageReqOpaque { fn clone(&self) -> Self { unimplemented!() } }

impl Eq for PackageNv {}
impl PartialOrd for PackageNv { fn partial_cmp(&self, _o: &Self) -> Option<std::cmp::Ordering> { unimplemented!() } }
impl Ord for PackageNv { fn cmp(&self, _o: &Self) -> std::cmp::Ordering { unimplemented!() } }
impl std::hash::Hash for PackageNv { fn hash<H: std::hash::Hasher>(&self, _h: &mut H) { unimplemented!() } }
impl PartialEq for PackageReq { fn eq(&self, _o: &Self) -> bool { unimplemented!() } }
impl Eq for PackageReq {}
impl PartialOrd for PackageReq { fn partial_cmp(&self, _o: &Self) -> Option<std::cmp::Ordering> { unimplemented!() } }
impl Ord for PackageReq { fn cmp(&self, _o: &Self) -> std::cmp::Ordering { unimplemented!() } }
impl std::hash::Hash for PackageReq { fn hash<H: std::hash::Hasher>(&self, _h: &mut H) { unimplemented!() } }
impl PartialEq for JsrDepPackageReq { fn eq(&self, _o: &Self) -> bool { unimplemented!() } }
impl Eq for JsrDepPackageReq {}
impl std::hash::Hash for JsrDepPackageReq { fn hash<H: std::hash::Hasher>(&self, _h: &mut H) { unimplemented!() } }

verus! {

pub struct PackageNv { pub name: PackageName, pub version: Version }
impl Clone for PackageNv {
    #[verifier::external_body]
    fn clone(&self) -> (r: Self) ensures r == *self { unimplemented!() }
}
impl PartialEq for PackageNv {
    #[verifier::external_body]
    fn eq(&self, other: &Self) -> (r: bool) ensures r == (*self == *other) { unimplemented!() }
}
impl vstd::std_specs::cmp::PartialEqSpecImpl for PackageNv {
    open spec fn obeys_eq_spec() -> bool { true }
    open spec fn eq_spec(&self, other: &PackageNv) -> bool { *self == *other }
}
pub enum PackageKind { Jsr, Npm }
pub struct JsrDepPackageReq { pub kind: PackageKind, pub req: PackageReq }

/// PackageReq / PackageNv / JsrDepPackageReq / PackageName are lawful map keys (assumed: derived Ord/Hash/Eq)
pub proof fn axiom_pkg_key_laws()
    ensures
        vstd::laws_cmp::obeys_cmp_spec::<PackageReq>(),
        vstd::laws_cmp::obeys_cmp_spec::<PackageNv>(),
        vstd::std_specs::hash::obeys_key_model::<PackageName>(),
        vstd::std_specs::hash::obeys_key_model::<JsrDepPackageReq>(),
{ admit(); }

/// `map.entry(k).or_default()` (R7 chain wrapper): a mutable reference to the value stored under
/// `k`, inserting `V::default()` first when absent; the map afterwards holds the final value of
/// that reference under `k` and is otherwise unchanged
#[verifier::external_body]
pub fn vx_hash_entry_or_default<'a, K: std::hash::Hash + Eq, V: Default>(map: &'a mut std::collections::HashMap<K, V>, k: K) -> (r: &'a mut V)
    requires vstd::std_specs::hash::obeys_key_model::<K>(),
    ensures
        old(map)@.contains_key(k) ==> *r == old(map)@[k],
        !old(map)@.contains_key(k) ==> is_default_value(*r),
        final(map)@ == old(map)@.insert(k, *final(r)),
{
    map.entry(k).or_default()
}
pub uninterp spec fn is_default_value<V>(v: V) -> bool;
pub proof fn axiom_default_vec_is_empty<T>(v: Vec<T>)
    ensures is_default_value(v) <==> v@.len() == 0,
{ admit(); }

} // verus!
verus! {
pub assume_specification<T: PartialEq>[ <[T]>::contains ](s: &[T], x: &T) -> (r: bool)
    ensures <T as vstd::std_specs::cmp::PartialEqSpec>::obeys_eq_spec() ==> r == exists|i: int| 0 <= i < s@.len() && <T as vstd::std_specs::cmp::PartialEqSpec>::eq_spec(&s@[i], x);

/// `map.entry(k).or_insert_with(f)` (R7 chain wrapper, result discarded): inserts `f()` when absent
#[verifier::external_body]
pub fn vx_btree_entry_or_insert_with<K: Ord, V, F: FnOnce() -> V>(map: &mut std::collections::BTreeMap<K, V>, k: K, f: F)
    requires vstd::laws_cmp::obeys_cmp_spec::<K>(), f.requires(()),
    ensures
        old(map)@.contains_key(k) ==> final(map)@ == old(map)@,
        !old(map)@.contains_key(k) ==> exists|v: V| f.ensures((), v) && final(map)@ == old(map)@.insert(k, v),
{
    map.entry(k).or_insert_with(f);
}
} // verus!
verus! {
pub proof fn axiom_string_order()
    ensures vstd::laws_cmp::obeys_cmp_spec::<String>(),
{ admit(); }
} // verus!
// serde_json stand-ins (only what JsrPackageVersionInfo::export / exports look at)
pub mod serde_json {
  pub struct Number { _p: u64 }
  pub struct Map<K, V> { _k: core::marker::PhantomData<K>, _v: core::marker::PhantomData<V> }
  impl<V> Map<String, V> { pub fn get(&self, _k: &str) -> Option<&V> { unimplemented!() } }
  pub use super::JsonValue as Value;
  #[derive(Debug)] pub struct Error { _p: u64 }
  pub fn to_string<T>(_v: &T) -> Result<String, Error> { unimplemented!() }
}
verus! {
#[verifier::external_type_specification] #[verifier::external_body] pub struct ExJsonNumber(serde_json::Number);
#[verifier::external_type_specification] #[verifier::external_body]
#[verifier::reject_recursive_types(K)] #[verifier::accept_recursive_types(V)]
pub struct ExJsonMap<K, V>(serde_json::Map<K, V>);

pub enum JsonValue {
    Null,
    Bool(bool),
    Number(serde_json::Number),
    String(String),
    Array(Vec<JsonValue>),
    Object(serde_json::Map<String, JsonValue>),
}
/// the entry of a JSON object for a key text (None when absent)
pub uninterp spec fn json_map_get<V>(m: serde_json::Map<String, V>, k: Seq<char>) -> Option<V>;
pub assume_specification<'a, V>[ serde_json::Map::<String, V>::get ](m: &'a serde_json::Map<String, V>, k: &str) -> (r: Option<&'a V>)
    ensures match r { Some(v) => json_map_get(*m, k@) == Some(*v), None => json_map_get(*m, k@) is None };

/// HashMap<PackageName, _> looked up by `&str` (Borrow<str>): the entry whose name has that text
pub proof fn axiom_package_name_borrow<V>(m: vstd::map::Map<PackageName, V>, s: &str)
    ensures
        vstd::std_specs::hash::contains_borrowed_key(m, s) <==> exists|n: PackageName| #[trigger] m.contains_key(n) && pn_text(n) == s@,
        forall|v: V| vstd::std_specs::hash::maps_borrowed_key_to_value(m, s, v) <==> exists|n: PackageName| #[trigger] m.contains_key(n) && pn_text(n) == s@ && m[n] == v,
{ admit(); }
} // verus!
