// Stand-ins for what Builder::handle_jsr_registry_pending_content_loads drives besides the graph: the set of deferred
// content loads of registry modules (a FuturesUnordered: completion order is arbitrary; futures read as their results,
// R16) and the embedder's ModuleInfoCacher (DESIGN.md §3.3).  Nothing here is verified.
pub struct ContentLoads { _p: u64 }
impl ContentLoads { pub fn next(&mut self) -> Option<PendingContentLoadItem> { unimplemented!() } }
pub struct PendingJsrState { pub pending_content_loads: ContentLoads }
pub trait ModuleInfoCacher { fn cache_module_info(&self, specifier: &Url, media_type: MediaType, source: &std::sync::Arc<[u8]>, module_info: &ModuleInfo); }

verus! {
#[verifier::external_type_specification] #[verifier::external_body] pub struct ExClContentLoads(ContentLoads);
#[verifier::external_type_specification] pub struct ExClPendingJsrState(PendingJsrState);
pub struct PendingState<'a> { pub jsr: PendingJsrState, pub _m: Ghost<&'a u8> }
#[verifier::external_trait_specification] pub trait ExClModuleInfoCacher { type ExternalTraitSpecificationFor: ModuleInfoCacher;
    fn cache_module_info(&self, specifier: &Url, media_type: MediaType, source: &std::sync::Arc<[u8]>, module_info: &ModuleInfo); }
/// HISTORY PREDICATE: "a deferred content load for this specifier was queued by Builder::visit" (which created the
/// module from the manifest's embedded module info, with an empty source, in the same step)
pub uninterp spec fn content_load_queued(u: Url) -> bool;
/// the next finished content load, in ANY order (FuturesUnordered); every item handed out was queued
pub assume_specification[ ContentLoads::next ](c: &mut ContentLoads) -> (r: Option<PendingContentLoadItem>)
    ensures match r { Some(item) => content_load_queued(item.specifier), None => true };
} // verus!
