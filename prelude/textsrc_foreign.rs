// Stand-ins for what new_source_with_text / parse_module_source_and_info call outside src/graph.rs
// (deno_media_type::encoding, ModuleAnalyzer, wasm_module_to_dts, header parsing) and the ASSUMED
// specifications of those calls (DESIGN.md §3.3).  Nothing here is verified.
#[derive(Clone, Copy, PartialEq, Eq)]
pub enum DecodedArcSourceDetailKind { Unchanged, Changed, OnlyUtf8Bom }
pub struct DecodedArcSourceDetail { pub text: std::sync::Arc<str>, pub kind: DecodedArcSourceDetailKind }
pub struct ModuleInfo { _p: u64 }
pub mod deno_media_type {
  pub mod encoding {
    pub fn detect_charset(_s: &crate::Url, _b: &[u8]) -> &'static str { unimplemented!() }
    pub fn decode_arc_source_detail(_c: &str, _b: std::sync::Arc<[u8]>) -> Result<crate::DecodedArcSourceDetail, std::io::Error> { unimplemented!() }
  }
}
pub fn resolve_media_type_and_charset_from_headers<'a>(_s: &Url, _h: Option<&'a std::collections::HashMap<String, String>>) -> (MediaType, Option<&'a str>) { unimplemented!() }
pub fn wasm_module_to_dts(_b: &[u8]) -> Result<String, WasmParseError> { unimplemented!() }

verus! {
#[verifier::external_type_specification]
pub struct ExDecodedArcSourceDetailKind(DecodedArcSourceDetailKind);
#[verifier::external_type_specification]
pub struct ExDecodedArcSourceDetail(DecodedArcSourceDetail);
#[verifier::external_type_specification] #[verifier::external_body]
pub struct ExModuleInfo(ModuleInfo);

/// src/analysis.rs `ModuleAnalyzer` (async_trait; read sequentially under R16): a deterministic function of its arguments
pub trait ModuleAnalyzer {
    spec fn analyze_spec(&self, specifier: Url, source: std::sync::Arc<str>, media_type: MediaType) -> Result<ModuleInfo, JsErrorBox>;
    fn analyze(&self, specifier: &Url, source: std::sync::Arc<str>, media_type: MediaType) -> (r: Result<ModuleInfo, JsErrorBox>)
        ensures r == self.analyze_spec(*specifier, source, media_type);
}

/// the charset a module is decoded with when the headers give none (deno_media_type: a UTF-16 byte-order mark for
/// local files, otherwise UTF-8)
pub open spec fn detect_charset_spec(s: Url, b: Seq<u8>) -> Seq<char> { detect_charset_def(url_scheme(s), b) }
pub assume_specification[ deno_media_type::encoding::detect_charset ](s: &Url, b: &[u8]) -> (r: &'static str)
    ensures r@ == detect_charset_spec(*s, b@);
/// decoding under a charset (deno_media_type / encoding_rs): deterministic; removes a leading byte-order mark
pub uninterp spec fn decode_spec(charset: Seq<char>, b: std::sync::Arc<[u8]>) -> Result<DecodedArcSourceDetail, std::io::Error>;
pub assume_specification[ deno_media_type::encoding::decode_arc_source_detail ](c: &str, b: std::sync::Arc<[u8]>) -> (r: Result<DecodedArcSourceDetail, std::io::Error>)
    ensures r == decode_spec(c@, b);
/// media type and charset parameter of the content-type header, else the media type of the specifier's extension
pub uninterp spec fn headers_spec(s: Url, h: Option<std::collections::HashMap<String, String>>) -> (MediaType, Option<Seq<char>>);
pub assume_specification<'a>[ resolve_media_type_and_charset_from_headers ](s: &Url, h: Option<&'a std::collections::HashMap<String, String>>) -> (r: (MediaType, Option<&'a str>))
    ensures
        r.0 == headers_spec(*s, match h { Some(m) => Some(*m), None => None }).0,
        match r.1 { Some(c) => headers_spec(*s, match h { Some(m) => Some(*m), None => None }).1 == Some(c@), None => headers_spec(*s, match h { Some(m) => Some(*m), None => None }).1 is None };
pub uninterp spec fn wasm_dts_spec(b: Seq<u8>) -> Result<String, WasmParseError>;
pub assume_specification[ wasm_module_to_dts ](b: &[u8]) -> (r: Result<String, WasmParseError>)
    ensures r == wasm_dts_spec(b@);

/// `OPT.unwrap_or_else(f)` (R7 wrapper)
#[verifier::external_body]
pub fn vx_unwrap_or_else<T, F: FnOnce() -> T>(o: Option<T>, f: F) -> (r: T)
    requires o is None ==> f.requires(()),
    ensures o is Some ==> r == o.unwrap(), o is None ==> f.ensures((), r),
{ o.unwrap_or_else(f) }
/// `RESULT.map(f)` (R7 wrapper)
#[verifier::external_body]
pub fn vx_res_map<T, E, U, F: FnOnce(T) -> U>(o: Result<T, E>, f: F) -> (r: Result<U, E>)
    requires o is Ok ==> f.requires((o->Ok_0,)),
    ensures o is Err ==> r is Err && r->Err_0 == o->Err_0, o is Ok ==> r is Ok && f.ensures((o->Ok_0,), r->Ok_0),
{ o.map(f) }
/// `RESULT.map_err(f)` (R7 wrapper)
#[verifier::external_body]
pub fn vx_res_map_err<T, E, F2, O: FnOnce(E) -> F2>(r: Result<T, E>, op: O) -> (out: Result<T, F2>)
    requires r is Err ==> op.requires((r->Err_0,)),
    ensures
        r is Ok ==> out is Ok && out->Ok_0 == r->Ok_0,
        r is Err ==> out is Err && op.ensures((r->Err_0,), out->Err_0),
{ r.map_err(op) }
/// `arc_bytes.as_ref()` (R7 wrapper)
#[verifier::external_body]
pub fn vx_arc_bytes_as_ref(b: &std::sync::Arc<[u8]>) -> (r: &[u8])
    ensures r@ == (**b)@,
{ b.as_ref() }
/// `string.into()` to an `Arc<str>` (R7 wrapper)
#[verifier::external_body]
pub fn vx_string_into_arc(s: String) -> (r: std::sync::Arc<str>)
    ensures (*r)@ == s@,
{ s.into() }
/// `String == str` (R7 wrapper)
#[verifier::external_body]
pub fn vx_string_eq_str(a: &String, b: &str) -> (r: bool)
    ensures r == (a@ == b@),
{ a == b }
} // verus!
verus! {
/// `range.to_owned()` (R7 wrapper)
#[verifier::external_body]
pub fn vx_range_to_owned(r: &Range) -> (o: Range)
    ensures o == *r,
{ r.to_owned() }
} // verus!
