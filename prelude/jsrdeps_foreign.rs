// Stand-ins for Builder::{mark_jsr_dep, mark_npm_dep}: the JSR url provider (which package a registry URL belongs to),
// npm references, JsrDepPackageReq constructors (DESIGN.md §3.3).  Nothing here is verified.
pub struct NpmPackageReqReference { _p: u64 }
impl NpmPackageReqReference { pub fn req(&self) -> &PackageReq { unimplemented!() } }
impl JsrDepPackageReq {
  pub fn jsr(req: PackageReq) -> Self { JsrDepPackageReq { kind: PackageKind::Jsr, req } }
  pub fn npm(req: PackageReq) -> Self { JsrDepPackageReq { kind: PackageKind::Npm, req } }
}
verus! {
#[verifier::external_type_specification] #[verifier::external_body] pub struct ExNpmPackageReqReference(NpmPackageReqReference);
pub uninterp spec fn npm_ref_req(r: NpmPackageReqReference) -> PackageReq;
pub assume_specification[ NpmPackageReqReference::req ](r: &NpmPackageReqReference) -> (q: &PackageReq)
    ensures *q == npm_ref_req(*r);
pub assume_specification[ JsrDepPackageReq::jsr ](req: PackageReq) -> (r: JsrDepPackageReq)
    ensures r == (JsrDepPackageReq { kind: PackageKind::Jsr, req });
pub assume_specification[ JsrDepPackageReq::npm ](req: PackageReq) -> (r: JsrDepPackageReq)
    ensures r == (JsrDepPackageReq { kind: PackageKind::Npm, req });
/// src/source/mod.rs JsrUrlProvider: which registry package (name@version) a URL belongs to, if any
pub trait JsrUrlProvider {
    spec fn url_to_nv(&self, u: Url) -> Option<PackageNv>;
    fn package_url_to_nv(&self, url: &Url) -> (r: Option<PackageNv>) ensures r == self.url_to_nv(*url);
}
/// graph::Range as far as these functions look at it
pub struct Range { pub specifier: Url }
} // verus!
