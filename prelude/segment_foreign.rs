// Stand-ins used by ModuleGraph::{new, segment}: IndexSet<&Url> built from a slice, its adapters,
// Clone::clone_from, Default of the collections (DESIGN.md §3.3).  Nothing here is verified.
pub struct CopiedRefs<'a, 'b> { _i: IndexSetIter<'b, &'a Url> }
impl<'a, 'b> Iterator for CopiedRefs<'a, 'b> { type Item = &'a Url; fn next(&mut self) -> Option<&'a Url> { unimplemented!() } }
impl<K> Default for IndexSet<K> { fn default() -> Self { unimplemented!() } }
impl Default for PackageSpecifiers { fn default() -> Self { unimplemented!() } }

verus! {
#[verifier::external_type_specification]
#[verifier::external_body]
pub struct ExCopiedRefs<'a, 'b>(CopiedRefs<'a, 'b>);

pub open spec fn refs_of(roots: Seq<Url>) -> Seq<&'static Url> { Seq::new(roots.len(), |i: int| &roots[i]) }
pub open spec fn in_roots(a: Seq<&Url>, t: Url) -> bool { exists|i: int| 0 <= i < a.len() && *(#[trigger] a[i]) == t }
/// two sequences of specifier references with the same members
pub open spec fn same_root_set(a: Seq<&Url>, b: Seq<&Url>) -> bool {
    forall|t: Url| #[trigger] in_roots(a, t) <==> in_roots(b, t)
}

/// `slice.iter().collect::<IndexSet<_>>()` (R7 chain wrapper): references to the slice's elements, without
/// duplicates (by value): same members as the slice
#[verifier::external_body]
pub fn vx_collect_ref_set<'a>(s: &'a [Url]) -> (r: IndexSet<&'a Url>)
    ensures
        is_seq(r).no_duplicates(),
        same_root_set(is_seq(r), refs_of(s@)),
{
    unimplemented!()
}

/// `set.iter().all(f)` (R7 chain wrapper)
#[verifier::external_body]
pub fn vx_set_all<K, F: FnMut(&K) -> bool>(s: &IndexSet<K>, f: F) -> (r: bool)
    requires forall|x: &K| #[trigger] f.requires((x,)),
    ensures
        r ==> forall|i: int| 0 <= i < is_seq(*s).len() ==> f.ensures((&#[trigger] is_seq(*s)[i],), true),
        !r ==> exists|i: int| 0 <= i < is_seq(*s).len() && f.ensures((&#[trigger] is_seq(*s)[i],), false),
{
    unimplemented!()
}

/// `set.iter().copied()` on a set of references (R7 chain wrapper): the references, in order
#[verifier::external_body]
pub fn vx_set_copied<'a, 'b>(s: &'b IndexSet<&'a Url>) -> (r: CopiedRefs<'a, 'b>)
    ensures
        r.obeys_prophetic_iter_laws(),
        r.remaining() == is_seq(*s),
{
    unimplemented!()
}

/// `set.iter().map(f).collect()` into an IndexSet<Url> (R7 chain wrapper): the set of the images
#[verifier::external_body]
pub fn vx_set_map_collect<'a, F: FnMut(&&'a Url) -> Url>(s: &IndexSet<&'a Url>, f: F) -> (r: IndexSet<Url>)
    requires forall|x: &&'a Url| #[trigger] f.requires((x,)),
    ensures
        exists|m: Seq<Url>| #![trigger m.len()] m.len() == is_seq(*s).len()
            && (forall|i: int| 0 <= i < m.len() ==> f.ensures((&is_seq(*s)[i],), #[trigger] m[i]))
            && (forall|u: Url| #[trigger] is_seq(r).contains(u) <==> m.contains(u)),
{
    unimplemented!()
}

/// `Clone::clone_from` (R7 wrapper): the destination becomes a clone of the source (assumed: clones are equal)
#[verifier::external_body]
pub fn vx_clone_from<T: Clone>(dst: &mut T, src: &T)
    ensures *final(dst) == *src,
{
    dst.clone_from(src)
}

/// `Url::to_owned` (R7 wrapper)
#[verifier::external_body]
pub fn vx_url_to_owned(u: &Url) -> (r: Url)
    ensures r == *u,
{
    u.to_owned()
}

impl Clone for ModuleGraph {
    /// `#[derive(Clone)]` on ModuleGraph (assumed to return an equal value)
    #[verifier::external_body]
    fn clone(&self) -> (r: Self) ensures r == *self { unimplemented!() }
}

/// `Default::default()` of the graph's collections: empty
pub assume_specification<K>[ <IndexSet<K> as Default>::default ]() -> (r: IndexSet<K>)
    ensures is_seq(r).len() == 0;
pub assume_specification<K, V>[ <IndexMap<K, V> as Default>::default ]() -> (r: IndexMap<K, V>)
    ensures im_keys(r).len() == 0;
pub uninterp spec fn empty_packages() -> PackageSpecifiers;
pub assume_specification[ <PackageSpecifiers as Default>::default ]() -> (r: PackageSpecifiers)
    ensures r == empty_packages();
// (BTreeMap's Default already has a vstd specification)
} // verus!
