// Stand-ins needed only by the walk/error iterators.
verus! {

/// Embedder-supplied predicate (R9): assumed deterministic and side-effect free — the answer is a
/// function of (resolver, specifier).
pub trait CheckJsResolver {
    spec fn resolve_spec(&self, s: Url) -> bool;
    fn resolve(&self, specifier: &ModuleSpecifier) -> (r: bool)
        ensures r == self.resolve_spec(*specifier);
}

} // verus!
// `EMPTY_DEPS.get_or_init(Default::default)` (a process-wide empty IndexMap behind a OnceLock) is
// rewritten (R7, mode `unit`) to `vx_empty_deps()`: ASSUMED to return an empty map.
pub static VX_EMPTY_DEPS: std::sync::OnceLock<IndexMap<String, Dependency>> = std::sync::OnceLock::new();
impl<K, V> Default for IndexMap<K, V> { fn default() -> Self { unimplemented!() } }
pub struct IndexMapRevValues<'a, K, V> { _m: &'a IndexMap<K, V> }
impl<'a, K, V> Iterator for IndexMapRevValues<'a, K, V> { type Item = &'a V; fn next(&mut self) -> Option<&'a V> { unimplemented!() } }
pub struct ImportDepsIter<'a> { _m: &'a IndexMap<ModuleSpecifier, GraphImport> }
impl<'a> Iterator for ImportDepsIter<'a> { type Item = (&'a String, &'a Dependency); fn next(&mut self) -> Option<(&'a String, &'a Dependency)> { unimplemented!() } }

verus! {

#[verifier::external_body]
pub fn vx_empty_deps() -> (r: &'static IndexMap<String, Dependency>)
    ensures im_vals(*r).len() == 0, im_keys(*r).len() == 0,
{
    VX_EMPTY_DEPS.get_or_init(Default::default)
}

#[verifier::external_type_specification]
#[verifier::external_body]
#[verifier::reject_recursive_types(K)]
#[verifier::accept_recursive_types(V)]
pub struct ExIndexMapRevValues<'a, K, V>(IndexMapRevValues<'a, K, V>);

#[verifier::external_type_specification]
#[verifier::external_body]
pub struct ExImportDepsIter<'a>(ImportDepsIter<'a>);

/// `map.values().rev()`: the values in reverse insertion order
#[verifier::external_body]
pub fn vx_rev<'a, K, V>(it: IndexMapValues<'a, K, V>) -> (r: IndexMapRevValues<'a, K, V>)
    requires it.obeys_prophetic_iter_laws(),
    ensures
        r.obeys_prophetic_iter_laws(),
        r.remaining().len() == it.remaining().len(),
        forall|i: int| 0 <= i < it.remaining().len() ==> #[trigger] r.remaining()[i] == it.remaining()[it.remaining().len() - 1 - i],
{
    unimplemented!()
}

/// `graph.imports.values().flat_map(|i| &i.dependencies)`: every (text, dependency) entry of every
/// configured import, in order (the closure only projects the `dependencies` field)
#[verifier::external_body]
pub fn vx_values_flat_map<'a, F: Fn(&'a GraphImport) -> &'a IndexMap<String, Dependency>>(m: &'a IndexMap<ModuleSpecifier, GraphImport>, f: F) -> (r: ImportDepsIter<'a>)
    ensures
        r.obeys_prophetic_iter_laws(),
        forall|j: int| 0 <= j < r.remaining().len() ==>
            exists|a: int, b: int| 0 <= a < im_vals(*m).len() && 0 <= b < im_vals(im_vals(*m)[a].dependencies).len()
                && *(#[trigger] r.remaining()[j]).1 == im_vals(im_vals(*m)[a].dependencies)[b],
        forall|a: int, b: int| 0 <= a < im_vals(*m).len() && 0 <= b < im_vals(im_vals(*m)[a].dependencies).len() ==>
            exists|j: int| 0 <= j < r.remaining().len() && *r.remaining()[j].1 == #[trigger] im_vals(im_vals(*m)[a].dependencies)[b],
{
    unimplemented!()
}

} // verus!
verus! {
/// std `BTreeMap::get_key_value`: like `get`, also returning the stored key (which equals the
/// lookup key — `key_eq`, see axiom_key_eq)
pub assume_specification<'a, K, V, A, Q>[ std::collections::BTreeMap::<K, V, A>::get_key_value::<Q> ](m: &'a std::collections::BTreeMap<K, V, A>, k: &Q) -> (r: Option<(&'a K, &'a V)>)
    where A: std::alloc::Allocator + Clone, K: std::borrow::Borrow<Q> + Ord, Q: Ord + ?Sized,
    ensures
        vstd::laws_cmp::obeys_cmp_spec::<K>() ==> match r {
            Some((rk, rv)) => vstd::std_specs::btree::contains_borrowed_key(m@, k) && m@.contains_key(*rk) && m@[*rk] == *rv
                && vstd::std_specs::btree::maps_borrowed_key_to_value(m@, k, *rv) && key_eq(*rk, k),
            None => !vstd::std_specs::btree::contains_borrowed_key(m@, k),
        };
} // verus!
verus! {
/// `for (k, v) in &index_map`: the entries in insertion order
pub assume_specification<'a, K, V>[ <&'a IndexMap<K, V> as IntoIterator>::into_iter ](m: &'a IndexMap<K, V>) -> (r: IndexMapIter<'a, K, V>)
    ensures
        r.obeys_prophetic_iter_laws(),
        r.remaining().len() == im_vals(*m).len(),
        forall|i: int| 0 <= i < im_vals(*m).len() ==> *(#[trigger] r.remaining()[i]).0 == im_keys(*m)[i] && *r.remaining()[i].1 == im_vals(*m)[i];
/// `index_map.iter()`: the same entries in the same order
pub assume_specification<'a, K, V>[ IndexMap::<K, V>::iter ](m: &'a IndexMap<K, V>) -> (r: IndexMapIter<'a, K, V>)
    ensures
        r.obeys_prophetic_iter_laws(),
        r.remaining().len() == im_vals(*m).len(),
        forall|i: int| 0 <= i < im_vals(*m).len() ==> *(#[trigger] r.remaining()[i]).0 == im_keys(*m)[i] && *r.remaining()[i].1 == im_vals(*m)[i];
} // verus!
