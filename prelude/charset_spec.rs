// C20: "... the charset given by the content-type header, a byte-order mark, or UTF-8 by default" — what is
// detected when the headers give no charset (definition shared by the units textsrc and charset)
verus! {
/// UTF-16 byte-order marks select UTF-16 (LE: FF FE, BE: FE FF); everything else is UTF-8
pub open spec fn bom_charset(b: Seq<u8>) -> Seq<char> {
    if b.len() >= 2 && b[0] == 0xFF && b[1] == 0xFE { "utf-16le"@ }
    else if b.len() >= 2 && b[0] == 0xFE && b[1] == 0xFF { "utf-16be"@ }
    else { "utf-8"@ }
}
/// without a header charset: local files are sniffed for a byte-order mark, remote content is UTF-8
/// (the dependency's documented design: BOM sniffing "should NOT be used for remote bytes")
pub open spec fn detect_charset_def(scheme: Seq<char>, b: Seq<u8>) -> Seq<char> {
    if scheme == "file"@ { bom_charset(b) } else { "utf-8"@ }
}
} // verus!
