// Rule R7: `RECV.filter_map(CL)` / `.map(CL)` / `.any(CL)` on an *iterator* is rewritten by vx to
// `vx_filter_map(RECV, CL)` etc. (a UFCS-style rewrite: the wrapper body is literally the method
// call).  The wrappers carry the ASSUMED specification of the std adapter over vstd's prophetic
// `remaining()`; the closure passed in is verified against its own (R12) contract.
use std::iter::{FilterMap, Map};

verus! {

#[verifier::external_type_specification]
#[verifier::external_body]
#[verifier::reject_recursive_types(I)]
#[verifier::reject_recursive_types(F)]
pub struct ExFilterMap<I, F>(FilterMap<I, F>);

// (core::iter::Map already has a type specification in vstd)

/// std `Iterator::filter_map`: the output is exactly the `Some` results of applying `f` to the
/// remaining source elements (every output is the `Some` result of a source element; every source element either
/// produced `None` or produced one of the outputs; order is not claimed).
#[verifier::external_body]
pub fn vx_filter_map<I: Iterator, B, F: FnMut(I::Item) -> Option<B>>(it: I, f: F) -> (r: FilterMap<I, F>)
    requires
        it.obeys_prophetic_iter_laws(),
        forall|x: I::Item| #[trigger] f.requires((x,)),
    ensures
        r.obeys_prophetic_iter_laws(),
        forall|j: int| 0 <= j < r.remaining().len() ==>
            exists|i: int| 0 <= i < it.remaining().len() && f.ensures((it.remaining()[i],), Some(#[trigger] r.remaining()[j])),
        forall|i: int| 0 <= i < it.remaining().len() ==>
            f.ensures((#[trigger] it.remaining()[i],), None)
            || exists|j: int| 0 <= j < r.remaining().len() && f.ensures((it.remaining()[i],), Some(#[trigger] r.remaining()[j])),
{
    it.filter_map(f)
}

/// std `Iterator::map`: element-wise image, same length, same order.
#[verifier::external_body]
pub fn vx_map<I: Iterator, B, F: FnMut(I::Item) -> B>(it: I, f: F) -> (r: Map<I, F>)
    requires
        it.obeys_prophetic_iter_laws(),
        forall|x: I::Item| #[trigger] f.requires((x,)),
    ensures
        r.obeys_prophetic_iter_laws(),
        r.remaining().len() == it.remaining().len(),
        forall|i: int| 0 <= i < it.remaining().len() ==> f.ensures((it.remaining()[i],), #[trigger] r.remaining()[i]),
{
    it.map(f)
}

/// std `Iterator::any`: true iff the closure answers true for some remaining element
/// (short-circuit evaluation is not observable for side-effect-free closures).
#[verifier::external_body]
pub fn vx_any<I: Iterator, F: FnMut(I::Item) -> bool>(it: I, f: F) -> (r: bool)
    requires
        it.obeys_prophetic_iter_laws(),
        forall|x: I::Item| #[trigger] f.requires((x,)),
    ensures
        r ==> exists|i: int| 0 <= i < it.remaining().len() && f.ensures((#[trigger] it.remaining()[i],), true),
        !r ==> forall|i: int| 0 <= i < it.remaining().len() ==> f.ensures((#[trigger] it.remaining()[i],), false),
{
    let mut it = it;
    it.any(f)
}

/// std `Option::is_some_and`
#[verifier::external_body]
pub fn vx_is_some_and<T, F: FnOnce(T) -> bool>(o: Option<T>, f: F) -> (r: bool)
    requires o is Some ==> f.requires((o.unwrap(),)),
    ensures
        o is None ==> !r,
        o is Some ==> f.ensures((o.unwrap(),), r),
{
    o.is_some_and(f)
}

/// std `Option::or_else`
#[verifier::external_body]
pub fn vx_or_else<T, F: FnOnce() -> Option<T>>(o: Option<T>, f: F) -> (r: Option<T>)
    requires o is None ==> f.requires(()),
    ensures
        o is Some ==> r == o,
        o is None ==> f.ensures((), r),
{
    o.or_else(f)
}

/// Rule R13: `a |= b` on bools is rewritten to `a = vx_bool_or(a, b)`.
#[verifier::external_body]
pub fn vx_bool_or(a: bool, b: bool) -> (r: bool)
    ensures r == (a || b),
{
    a | b
}

} // verus!
