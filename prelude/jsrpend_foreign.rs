// Stand-ins for what Builder::resolve_pending_jsr_specifiers drives besides the package table: the registry metadata
// store (futures read as their results, R16), version-manifest probing, the loader queue, JSR package references,
// the url provider (DESIGN.md §3.3).  Nothing here is verified.
pub type PendingResult<T> = Result<T, JsrLoadError>;
pub struct JsrMetadataStore { _p: u64 }
impl JsrMetadataStore {
  pub fn get_package_metadata(&self, _n: &str) -> Option<PendingResult<std::sync::Arc<JsrPackageInfo>>> { unimplemented!() }
  pub fn remove_package_metadata(&self, _n: &str) { unimplemented!() }
  pub fn get_package_version_metadata(&self, _nv: &PackageNv) -> Option<PendingResult<PendingJsrPackageVersionInfoLoadItem>> { unimplemented!() }
  pub fn queue_load_package_info(&self, _n: &str, _c: CacheSetting, _s: JsrMetadataStoreServices) { unimplemented!() }
}
pub struct PendingQueue { _p: u64 }
impl PendingQueue { pub fn is_empty(&self) -> bool { unimplemented!() } }
impl JsrPackageNvReference {
  pub fn new(i: PackageNvReference) -> Self { Self(i) }
  pub fn nv(&self) -> &PackageNv { &self.0.nv }
  pub fn export_name(&self) -> std::borrow::Cow<'_, str> { unimplemented!() }
  pub fn into_inner(self) -> PackageNvReference { self.0 }
}
impl JsrPackageReqReference { pub fn into_inner(self) -> PackageReqReference { unimplemented!() } }
pub trait Executor {}
pub trait Loader {}
pub trait JsrUrlProvider { fn package_url(&self, nv: &PackageNv) -> Url; }
pub trait Locker { fn set_pkg_manifest_checksum(&mut self, nv: &PackageNv, checksum: LoaderChecksum); }
impl<'a, 'graph> Builder<'a, 'graph> {
  pub fn jsr_unification_decides(&self, _r: &PackageReq) -> bool { unimplemented!() }
  pub fn probe_cached_jsr_version_manifests(&self, _r: &PackageReq, _i: &JsrPackageInfo, _m: &mut std::collections::HashMap<StackString, CachedJsrVersionProbe>) { unimplemented!() }
  pub fn resolve_jsr_nv(&mut self, _r: &PackageReq, _i: &JsrPackageInfo, _c: &std::collections::HashSet<Version>) -> Result<PackageNv, JsrPackageReqNotFoundError> { unimplemented!() }
  pub fn queue_load_package_version_info(&mut self, _nv: &PackageNv) { unimplemented!() }
  pub fn load(&mut self, _o: LoadOptionsRef) { unimplemented!() }
}
impl From<JsrLoadError> for ModuleLoadError { fn from(e: JsrLoadError) -> Self { ModuleLoadError::Jsr(e) } }
impl Url { pub fn join(&self, _p: &str) -> Result<Url, UrlParseError> { unimplemented!() }
  pub fn as_str(&self) -> &str { unimplemented!() } }

verus! {
pub struct LoaderChecksum(pub String);
pub struct JsrMetadataStoreServices<'a> { pub executor: &'a dyn Executor, pub jsr_url_provider: &'a dyn JsrUrlProvider, pub loader: &'a dyn Loader }
pub struct PendingJsrPackageVersionInfoLoadItem { pub checksum_for_locker: Option<LoaderChecksum>, pub info: std::sync::Arc<JsrPackageVersionInfo> }
pub struct PendingJsrState { pub pending_resolutions: std::collections::VecDeque<PendingJsrReqResolutionItem>, pub metadata: std::rc::Rc<JsrMetadataStore> }
pub struct PendingState<'a> { pub pending: PendingQueue, pub jsr: PendingJsrState, pub _m: Ghost<&'a u8> }
pub struct PackageNvReference { pub nv: PackageNv, pub sub_path: Option<String> }
pub struct PackageReqReference { pub req: PackageReq, pub sub_path: Option<String> }
pub struct JsrPackageNvReference(pub PackageNvReference);
#[verifier::external_type_specification] #[verifier::external_body] pub struct ExJsrMetadataStore(JsrMetadataStore);
#[verifier::external_type_specification] #[verifier::external_body] pub struct ExJpPendingQueue(PendingQueue);
#[verifier::external_trait_specification] pub trait ExJpExecutor { type ExternalTraitSpecificationFor: Executor; }
#[verifier::external_trait_specification] pub trait ExJpLoader { type ExternalTraitSpecificationFor: Loader; }
#[verifier::external_trait_specification] pub trait ExJpLocker { type ExternalTraitSpecificationFor: Locker; fn set_pkg_manifest_checksum(&mut self, nv: &PackageNv, checksum: LoaderChecksum); }
/// the registry URL of a package (name@version): deterministic
pub uninterp spec fn package_url_of(nv: PackageNv) -> Url;
#[verifier::external_trait_specification] pub trait ExJpJsrUrlProvider { type ExternalTraitSpecificationFor: JsrUrlProvider;
    fn package_url(&self, nv: &PackageNv) -> (r: Url) ensures r == package_url_of(*nv); }

/// HISTORY PREDICATES of the metadata store (an `Rc` with interior mutability, so no `&mut` state to thread): "a load of
/// this package's info / of this version's manifest has been queued".  They are time-independent predicates: the
/// stand-ins only ever state them positively (a queued load stays answerable until the pass ends; the one removal,
/// remove_package_metadata, is followed by a re-queue in the code and is NOT modelled as making the predicate false).
pub uninterp spec fn info_queued(name: Seq<char>) -> bool;
pub uninterp spec fn version_queued(nv: PackageNv) -> bool;
pub assume_specification[ JsrMetadataStore::get_package_metadata ](s: &JsrMetadataStore, n: &str) -> (r: Option<PendingResult<std::sync::Arc<JsrPackageInfo>>>)
    ensures info_queued(n@) ==> r is Some;
pub assume_specification[ JsrMetadataStore::remove_package_metadata ](s: &JsrMetadataStore, n: &str);
/// the (awaited) version manifest of a package: a deterministic function of the package while the pass runs
pub uninterp spec fn version_manifest_of(nv: PackageNv) -> Option<PendingResult<PendingJsrPackageVersionInfoLoadItem>>;
pub assume_specification[ JsrMetadataStore::get_package_version_metadata ](s: &JsrMetadataStore, nv: &PackageNv) -> (r: Option<PendingResult<PendingJsrPackageVersionInfoLoadItem>>)
    ensures r == version_manifest_of(*nv), version_queued(*nv) ==> r is Some;
pub assume_specification[ JsrMetadataStore::queue_load_package_info ](s: &JsrMetadataStore, n: &str, c: CacheSetting, sv: JsrMetadataStoreServices)
    ensures info_queued(n@);
pub assume_specification[ PendingQueue::is_empty ](q: &PendingQueue) -> (r: bool);
pub assume_specification[ JsrPackageNvReference::new ](i: PackageNvReference) -> (r: JsrPackageNvReference) ensures r.0 == i;
pub assume_specification<'a>[ JsrPackageNvReference::nv ](r: &'a JsrPackageNvReference) -> (n: &'a PackageNv) ensures *n == r.0.nv;
/// the sub path normalised as an export name ("." for none, "./x" for "x"): deterministic
pub uninterp spec fn export_name_of(sub_path: Option<String>) -> Seq<char>;
pub assume_specification<'a>[ JsrPackageNvReference::export_name ](r: &'a JsrPackageNvReference) -> (n: std::borrow::Cow<'a, str>)
    ensures cow_text(n) == export_name_of(r.0.sub_path);
pub uninterp spec fn cow_text(c: std::borrow::Cow<'_, str>) -> Seq<char>;
pub assume_specification[ JsrPackageNvReference::into_inner ](r: JsrPackageNvReference) -> (i: PackageNvReference) ensures i == r.0;
pub assume_specification[ JsrPackageReqReference::into_inner ](r: JsrPackageReqReference) -> (i: PackageReqReference);
pub assume_specification<'a, 'graph>[ Builder::<'a, 'graph>::jsr_unification_decides ](b: &Builder<'a, 'graph>, r: &PackageReq) -> (x: bool);
/// Builder::probe_cached_jsr_version_manifests (async, iterator adapters, join_all: not extracted): its first statement is
/// `memo.entry(package_req.name.clone()).or_default()`, so the memo has an entry for the package afterwards (ASSUMED)
pub assume_specification<'a, 'graph>[ Builder::<'a, 'graph>::probe_cached_jsr_version_manifests ](b: &Builder<'a, 'graph>, r: &PackageReq, i: &JsrPackageInfo, m: &mut std::collections::HashMap<StackString, CachedJsrVersionProbe>)
    ensures final(m)@.contains_key(r.name);
/// Builder::resolve_jsr_nv (contract proved in the unit jsrbuild; here only its frame on the graph outside the package table)
pub assume_specification<'a, 'graph>[ Builder::<'a, 'graph>::resolve_jsr_nv ](b: &mut Builder<'a, 'graph>, r: &PackageReq, i: &JsrPackageInfo, c: &std::collections::HashSet<Version>) -> (x: Result<PackageNv, JsrPackageReqNotFoundError>)
    ensures (*final(b).graph).module_slots == (*old(b).graph).module_slots && (*final(b).graph).redirects == (*old(b).graph).redirects;
pub assume_specification<'a, 'graph>[ Builder::<'a, 'graph>::queue_load_package_version_info ](b: &mut Builder<'a, 'graph>, nv: &PackageNv)
    ensures *final(b).graph == *old(b).graph, version_queued(*nv);
/// Builder::load (the rest of the builder): queues the load; ASSUMED to leave redirects and the package table alone and
/// to touch at most the slot of the specifier it is asked to load
pub assume_specification<'a, 'graph>[ Builder::<'a, 'graph>::load ](b: &mut Builder<'a, 'graph>, o: LoadOptionsRef)
    ensures
        (*final(b).graph).redirects == (*old(b).graph).redirects && (*final(b).graph).packages == (*old(b).graph).packages,
        forall|u: Url| u != *o.specifier ==> ((*final(b).graph).module_slots@.contains_key(u) <==> (*old(b).graph).module_slots@.contains_key(u))
            && ((*old(b).graph).module_slots@.contains_key(u) ==> (*final(b).graph).module_slots@[u] == (*old(b).graph).module_slots@[u]);
#[verifier::external_body]
pub fn vx_jsr_err_into(e: JsrLoadError) -> (r: ModuleLoadError) ensures r == ModuleLoadError::Jsr(e) { unimplemented!() }
/// `url.as_str().starts_with(base.as_str())` (R7 chain wrapper): the url's text starts with the base's text
pub uninterp spec fn url_inside(u: Url, base: Url) -> bool;
#[verifier::external_body]
pub fn vx_url_text_starts_with(u: &Url, base: &str) -> (r: bool)
    ensures forall|b: Url| #[trigger] url_text(b) == base@ ==> r == url_inside(*u, b),
{ unimplemented!() }
pub uninterp spec fn url_text(u: Url) -> Seq<char>;
pub assume_specification[ Url::as_str ](u: &Url) -> (s: &str) ensures s@ == url_text(*u);
/// `base.join(path)`: deterministic (url crate)
pub uninterp spec fn url_join(base: Url, p: Seq<char>) -> Option<Url>;
pub assume_specification[ Url::join ](u: &Url, p: &str) -> (r: Result<Url, UrlParseError>)
    ensures match r { Ok(x) => url_join(*u, p@) == Some(x), Err(_) => url_join(*u, p@) is None };
/// `version_info.exports().map(|(k, _)| k.to_string()).collect::<Vec<_>>()` (R7 chain wrapper; `exports()` returns a boxed
/// iterator that cannot carry a contract): the export names of the manifest (nothing is claimed about them)
#[verifier::external_body]
pub fn vx_export_names<F: for<'x> FnMut((&'x str, &'x str)) -> String>(v: &JsrPackageVersionInfo, f: F) -> (r: Vec<String>)
    requires forall|kv: (&str, &str)| f.requires((kv,)),
             forall|kv: (&str, &str), s: String| f.ensures((kv,), s) ==> s@ == kv.0@,
    ensures texts(r@) == manifest_export_names(v.exports),
{ unimplemented!() }
/// `version_info.export(&cow)` (R7 wrapper: the `&Cow<str>` argument is deref-coerced to `&str`, and the installed Verus
/// cannot attach a contract to `<Cow<B> as Deref>::deref`): JsrPackageVersionInfo::export — whose contract is proved in
/// the unit pkgtable — applied to the text of the Cow
#[verifier::external_body]
pub fn vx_export_of_cow<'a>(v: &'a JsrPackageVersionInfo, name: &std::borrow::Cow<'_, str>) -> (r: Option<&'a str>)
    ensures export_lookup(v.exports, cow_text(*name), r),
{ v.export(name) }
/// `cow.into_owned()` / `cow.to_string()` / deref of a `Cow<str>` (R7 wrappers): the text
#[verifier::external_body]
pub fn vx_cow_into_owned(c: std::borrow::Cow<'_, str>) -> (s: String) ensures s@ == cow_text(c) { c.into_owned() }
#[verifier::external_body]
pub fn vx_cow_to_string(c: &std::borrow::Cow<'_, str>) -> (s: String) ensures s@ == cow_text(*c) { c.to_string() }
#[verifier::external_body]
pub fn vx_cow_as_str<'a>(c: &'a std::borrow::Cow<'_, str>) -> (s: &'a str) ensures s@ == cow_text(*c) { c }
pub assume_specification<T: Default>[ std::mem::take::<T> ](dest: &mut T) -> (r: T)
    ensures r == *old(dest);
} // verus!
