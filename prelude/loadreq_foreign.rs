// Stand-ins for what Builder::load_with_redirect_count calls outside itself: the steps that actually start a load
// (load_pending_module, load_jsr_subpath, load_jsr_specifier, load_npm_specifier: the rest of the builder), the
// specifier classification, mark_jsr_dep / mark_npm_dep (proved in the unit jsrdeps), media type inference, the embedder's
// NpmResolver (DESIGN.md §3.3).  Nothing here is verified.
pub struct JsrPackageVersionInfo { _p: u64 }
pub struct JsrPackageReqReference { _p: u64 }
pub trait NpmResolver {}
impl MediaType { pub fn from_specifier(_u: &Url) -> MediaType { unimplemented!() } }
impl JsrPackageVersionInfoExt { pub fn get_subpath<'a>(&self, _s: &'a Url) -> Option<&'a str> { unimplemented!() } }
impl Clone for JsrPackageVersionInfoExt { fn clone(&self) -> Self { unimplemented!() } }
impl Clone for AttributeTypeWithRange { fn clone(&self) -> Self { unimplemented!() } }
impl<'a, 'graph> Builder<'a, 'graph> {
  pub fn parse_load_specifier_kind(&self, _s: &Url, _r: Option<&Range>) -> Result<LoadSpecifierKind, ModuleError> { unimplemented!() }
  pub fn mark_jsr_dep(&mut self, _p: &JsrPackageReqReference, _r: Option<&Range>) { unimplemented!() }
  pub fn mark_npm_dep(&mut self, _p: &NpmPackageReqReference, _r: Option<&Range>) { unimplemented!() }
  pub fn load_jsr_subpath(&mut self, _c: usize, _s: &Url, _v: &JsrPackageVersionInfoExt, _p: &str, _o: LoadOptionsRef) { unimplemented!() }
  pub fn load_jsr_specifier(&mut self, _s: Url, _p: JsrPackageReqReference, _a: Option<AttributeTypeWithRange>, _r: Option<&Range>, _x: bool, _y: bool, _z: bool) { unimplemented!() }
  pub fn load_npm_specifier(&mut self, _n: &dyn NpmResolver, _s: Url, _p: NpmPackageReqReference, _r: Option<&Range>, _d: bool) { unimplemented!() }
  pub fn load_pending_module(&mut self, _i: PendingModuleLoadItem) { unimplemented!() }
}

verus! {
#[verifier::external_type_specification] #[verifier::external_body] pub struct ExLrJsrPackageVersionInfo(JsrPackageVersionInfo);
#[verifier::external_type_specification] #[verifier::external_body] pub struct ExLrJsrPackageReqReference(JsrPackageReqReference);
#[verifier::external_trait_specification] pub trait ExLrNpmResolver { type ExternalTraitSpecificationFor: NpmResolver; }
pub struct LoaderChecksum(pub String);
pub struct PendingState<'a> { pub deferred: std::collections::HashMap<Url, DeferredLoad>, pub _m: Ghost<&'a u8> }

/// `map.entry(k).or_insert_with(f)` (R7 chain wrapper, result discarded): inserts `f()` when absent
#[verifier::external_body]
pub fn vx_hash_entry_or_insert_with<K: std::hash::Hash + Eq, V, F: FnOnce() -> V>(map: &mut std::collections::HashMap<K, V>, k: K, f: F)
    requires f.requires(()),
    ensures
        old(map)@.contains_key(k) ==> final(map)@ == old(map)@,
        !old(map)@.contains_key(k) ==> exists|v: V| f.ensures((), v) && final(map)@ == old(map)@.insert(k, v),
{
    map.entry(k).or_insert_with(f);
}
pub uninterp spec fn media_type_of_specifier(u: Url) -> MediaType;
pub assume_specification[ MediaType::from_specifier ](u: &Url) -> (m: MediaType) ensures m == media_type_of_specifier(*u);
/// the path of a URL inside the package version (None when the URL is outside it): deterministic
pub uninterp spec fn subpath_of(v: JsrPackageVersionInfoExt, s: Url) -> Option<Seq<char>>;
pub assume_specification<'a>[ JsrPackageVersionInfoExt::get_subpath ](v: &JsrPackageVersionInfoExt, s: &'a Url) -> (r: Option<&'a str>)
    ensures match r { Some(p) => subpath_of(*v, *s) == Some(p@), None => subpath_of(*v, *s) is None };
pub assume_specification[ <JsrPackageVersionInfoExt as Clone>::clone ](v: &JsrPackageVersionInfoExt) -> (c: JsrPackageVersionInfoExt) ensures c == *v;
pub assume_specification[ <AttributeTypeWithRange as Clone>::clone ](v: &AttributeTypeWithRange) -> (c: AttributeTypeWithRange) ensures c == *v;

/// Builder::parse_load_specifier_kind: how a specifier is to be loaded — a deterministic function of the specifier and
/// the referrer; ASSUMED: a rejected specifier yields an error that is about that specifier and carries the referrer
pub uninterp spec fn load_kind(s: Url, r: Option<Range>) -> Result<LoadSpecifierKind, ModuleError>;
pub assume_specification<'a, 'graph>[ Builder::<'a, 'graph>::parse_load_specifier_kind ](b: &Builder<'a, 'graph>, s: &Url, r: Option<&Range>) -> (k: Result<LoadSpecifierKind, ModuleError>)
    ensures k == load_kind(*s, opt_range(r));
pub open spec fn opt_range(r: Option<&Range>) -> Option<Range> { match r { Some(x) => Some(*x), None => None } }

/// Builder::mark_jsr_dep / mark_npm_dep (contracts proved in the unit jsrdeps: `dep_marked`): here, the package table
/// afterwards is a function of the table before, the requirement and the referrer; nothing else in the graph changes
pub uninterp spec fn jsr_dep_marked(t: PackageSpecifiers, p: JsrPackageReqReference, r: Option<Range>) -> PackageSpecifiers;
pub uninterp spec fn npm_dep_marked(t: PackageSpecifiers, p: NpmPackageReqReference, r: Option<Range>) -> PackageSpecifiers;
pub open spec fn only_packages_changed(g0: ModuleGraph, g1: ModuleGraph) -> bool {
    g1.module_slots == g0.module_slots && g1.redirects == g0.redirects && g1.roots == g0.roots && g1.imports == g0.imports
      && g1.graph_kind == g0.graph_kind && g1.has_node_specifier == g0.has_node_specifier && g1.npm_dep_graph_result == g0.npm_dep_graph_result
}
pub assume_specification<'a, 'graph>[ Builder::<'a, 'graph>::mark_jsr_dep ](b: &mut Builder<'a, 'graph>, p: &JsrPackageReqReference, r: Option<&Range>)
    ensures only_packages_changed(*old(b).graph, *final(b).graph), (*final(b).graph).packages == jsr_dep_marked((*old(b).graph).packages, *p, opt_range(r)),
            final(b).state == old(b).state, builder_flags(*final(b)) == builder_flags(*old(b));
pub assume_specification<'a, 'graph>[ Builder::<'a, 'graph>::mark_npm_dep ](b: &mut Builder<'a, 'graph>, p: &NpmPackageReqReference, r: Option<&Range>)
    ensures only_packages_changed(*old(b).graph, *final(b).graph), (*final(b).graph).packages == npm_dep_marked((*old(b).graph).packages, *p, opt_range(r)),
            final(b).state == old(b).state, builder_flags(*final(b)) == builder_flags(*old(b));
/// the builder's configuration flags (never written after construction)
pub open spec fn builder_flags(b: Builder<'_, '_>) -> (bool, bool, bool, bool, bool) {
    (b.unstable_bytes_imports, b.unstable_text_imports, b.unstable_css_imports, b.passthrough_jsr_specifiers, b.npm_resolver is Some)
}

/// GHOST LOG of the loads this call starts: the steps that actually start a load are the rest of the builder; what
/// matters here is WHICH of them is called with WHAT.  Each is a deterministic function of the graph before and its
/// arguments (an uninterpreted "graph after"), so that the postcondition can name the call that was made.
pub uninterp spec fn after_load_url(g: ModuleGraph, item: PendingModuleLoadItem) -> ModuleGraph;
pub uninterp spec fn after_load_jsr(g: ModuleGraph, s: Url, p: JsrPackageReqReference, r: Option<Range>) -> ModuleGraph;
pub uninterp spec fn after_load_npm(g: ModuleGraph, s: Url, p: NpmPackageReqReference, r: Option<Range>) -> ModuleGraph;
pub uninterp spec fn after_load_subpath(g: ModuleGraph, s: Url, sub_path: Seq<char>) -> ModuleGraph;
pub assume_specification<'a, 'graph>[ Builder::<'a, 'graph>::load_pending_module ](b: &mut Builder<'a, 'graph>, item: PendingModuleLoadItem)
    ensures *final(b).graph == after_load_url(*old(b).graph, item);
pub assume_specification<'a, 'graph>[ Builder::<'a, 'graph>::load_jsr_specifier ](b: &mut Builder<'a, 'graph>, s: Url, p: JsrPackageReqReference, a: Option<AttributeTypeWithRange>, r: Option<&Range>, x: bool, y: bool, z: bool)
    ensures *final(b).graph == after_load_jsr(*old(b).graph, s, p, opt_range(r));
pub assume_specification<'a, 'graph>[ Builder::<'a, 'graph>::load_npm_specifier ](b: &mut Builder<'a, 'graph>, n: &dyn NpmResolver, s: Url, p: NpmPackageReqReference, r: Option<&Range>, d: bool)
    ensures *final(b).graph == after_load_npm(*old(b).graph, s, p, opt_range(r));
pub assume_specification<'a, 'graph>[ Builder::<'a, 'graph>::load_jsr_subpath ](b: &mut Builder<'a, 'graph>, c: usize, s: &Url, v: &JsrPackageVersionInfoExt, p: &str, o: LoadOptionsRef)
    ensures *final(b).graph == after_load_subpath(*old(b).graph, *s, p@);
} // verus!
