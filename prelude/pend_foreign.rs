// Stand-ins for what Builder::resolve_pending drives: the queues of in-flight work (futures read as their results,
// R16), the other builder steps it calls (each a unit of its own or out of reach), the lockfile (DESIGN.md §3.3).
// Nothing here is verified.
pub struct PendingQueue { _p: u64 }
impl PendingQueue {
  pub fn is_empty(&self) -> bool { unimplemented!() }
  pub fn next(&mut self) -> Option<PendingInfo> { unimplemented!() }
}
pub struct OpaqueQueue { _p: u64 }
impl OpaqueQueue { pub fn is_empty(&self) -> bool { unimplemented!() } }
pub struct DeferredIter { _p: u64 }
impl Iterator for DeferredIter { type Item = (Url, DeferredLoad); fn next(&mut self) -> Option<(Url, DeferredLoad)> { unimplemented!() } }
pub struct PendingJsrState { pub pending_resolutions: OpaqueQueue }
pub struct NpmSpecifierResolver;
impl NpmSpecifierResolver { pub fn fill_builder(_b: &mut Builder<'_, '_>) { unimplemented!() } }
pub trait Locker { fn set_pkg_manifest_checksum(&mut self, nv: &PackageNv, checksum: LoaderChecksum); }
impl PackageSpecifiers { pub fn ensure_package(&mut self, _nv: PackageNv) { unimplemented!() } }
impl<'a, 'graph> Builder<'a, 'graph> {
  pub fn check_specifier(&mut self, _r: &Url, _s: &Url) { unimplemented!() }
  pub fn visit(&mut self, _r: PendingInfoResponse, _a: Option<Range>, _b: Option<Range>, _v: Option<&JsrPackageVersionInfoExt>) { unimplemented!() }
  pub fn load(&mut self, _o: LoadOptionsRef) { unimplemented!() }
  pub fn resolve_pending_jsr_specifiers(&mut self) -> bool { unimplemented!() }
  pub fn resolve_dynamic_branches(&mut self) { unimplemented!() }
  pub fn handle_jsr_registry_pending_content_loads(&mut self) { unimplemented!() }
  pub fn fill_graph_with_cache_info(&mut self) { unimplemented!() }
}
impl PendingInfoResponse { pub fn specifier(&self) -> &Url { unimplemented!() } }

verus! {
#[verifier::external_type_specification] #[verifier::external_body] pub struct ExPendingQueue(PendingQueue);
#[verifier::external_type_specification] #[verifier::external_body] pub struct ExOpaqueQueue(OpaqueQueue);
#[verifier::external_type_specification] #[verifier::external_body] pub struct ExDeferredIter(DeferredIter);
#[verifier::external_type_specification] pub struct ExPendPendingJsrState(PendingJsrState);
#[verifier::external_type_specification] pub struct ExNpmSpecifierResolver(NpmSpecifierResolver);
pub struct PendingState<'a> { pub pending: PendingQueue, pub jsr: PendingJsrState, pub dynamic_branches: OpaqueQueue, pub deferred: std::collections::HashMap<Url, DeferredLoad>, pub _m: Ghost<&'a u8> }
#[verifier::external_trait_specification] pub trait ExPLocker { type ExternalTraitSpecificationFor: Locker; fn set_pkg_manifest_checksum(&mut self, nv: &PackageNv, checksum: LoaderChecksum); }

pub assume_specification[ PendingQueue::is_empty ](q: &PendingQueue) -> (r: bool);
pub assume_specification[ PendingQueue::next ](q: &mut PendingQueue) -> (r: Option<PendingInfo>);
pub assume_specification[ OpaqueQueue::is_empty ](q: &OpaqueQueue) -> (r: bool);
pub assume_specification[ PackageSpecifiers::ensure_package ](p: &mut PackageSpecifiers, nv: PackageNv);
pub assume_specification[ NpmSpecifierResolver::fill_builder ](b: &mut Builder<'_, '_>);
pub assume_specification<T: Default>[ std::mem::take::<T> ](dest: &mut T) -> (r: T)
    ensures r == *old(dest);
/// `for (k, v) in hash_map` by value (R6 + R7 wrapper; nothing is claimed about the order)
#[verifier::external_body]
pub fn vx_deferred_into_iter(m: std::collections::HashMap<Url, DeferredLoad>) -> (r: DeferredIter)
    ensures r.obeys_prophetic_iter_laws(),
{ unimplemented!() }

/// the specifier an answer is about
pub open spec fn response_specifier(r: PendingInfoResponse) -> Url {
    match r {
        PendingInfoResponse::External { specifier, .. } => specifier,
        PendingInfoResponse::Module { module_source_and_info, .. } => match module_source_and_info {
            ModuleSourceAndInfo::Json { specifier, .. } => specifier,
            ModuleSourceAndInfo::Js { specifier, .. } => specifier,
            ModuleSourceAndInfo::Wasm { specifier, .. } => specifier,
        },
        PendingInfoResponse::Redirect { specifier, .. } => specifier,
    }
}
pub assume_specification<'a>[ PendingInfoResponse::specifier ](r: &'a PendingInfoResponse) -> (s: &'a Url)
    ensures *s == response_specifier(*r);
/// Builder::check_specifier (proved in the unit `redirects`): a redirect is recorded — and the pending slot of the
/// requested specifier dropped — exactly when the answer is about another specifier
pub assume_specification<'a, 'graph>[ Builder::<'a, 'graph>::check_specifier ](b: &mut Builder<'a, 'graph>, requested_specifier: &Url, specifier: &Url)
    ensures
        *requested_specifier == *specifier ==> *final(b).graph == *old(b).graph,
        *requested_specifier != *specifier ==> add_redirect_post(*old(b).graph, *final(b).graph, *requested_specifier, *specifier);
pub assume_specification<'a, 'graph>[ Builder::<'a, 'graph>::visit ](b: &mut Builder<'a, 'graph>, r: PendingInfoResponse, x: Option<Range>, y: Option<Range>, v: Option<&JsrPackageVersionInfoExt>);
pub assume_specification<'a, 'graph>[ Builder::<'a, 'graph>::load ](b: &mut Builder<'a, 'graph>, o: LoadOptionsRef);
pub assume_specification<'a, 'graph>[ Builder::<'a, 'graph>::resolve_pending_jsr_specifiers ](b: &mut Builder<'a, 'graph>) -> (r: bool);
pub assume_specification<'a, 'graph>[ Builder::<'a, 'graph>::resolve_dynamic_branches ](b: &mut Builder<'a, 'graph>);
pub assume_specification<'a, 'graph>[ Builder::<'a, 'graph>::handle_jsr_registry_pending_content_loads ](b: &mut Builder<'a, 'graph>);
pub assume_specification<'a, 'graph>[ Builder::<'a, 'graph>::fill_graph_with_cache_info ](b: &mut Builder<'a, 'graph>);
} // verus!
