// the crate's `fast_check` module as far as the graph data types mention it
pub mod fast_check { pub use super::{FastCheckDiagnostic, FastCheckDtsModule}; }
