// Stand-ins for what Builder::visit touches besides the graph: the embedder's Locker (lockfile interface, a trait
// object with a ghost view of its remote-checksum table), the pending-state queues, visit_module /
// load_with_redirect_count (the rest of the builder), SHA-256 (DESIGN.md §3.3).  Nothing here is verified.
pub struct BoxedFuture { _p: u64 }
pub struct ContentLoads { _p: u64 }
impl ContentLoads { pub fn push(&mut self, _f: BoxedFuture) { unimplemented!() } }
pub struct PendingJsrState { pub pending_content_loads: ContentLoads }

impl<'a, 'graph> Builder<'a, 'graph> {
  pub fn visit_module(&mut self, _m: ModuleSourceAndInfo, _v: Option<&JsrPackageVersionInfoExt>) -> ModuleSlot { unimplemented!() }
  pub fn load_with_redirect_count(&mut self, _c: usize, _o: LoadOptionsRef) { unimplemented!() }
}
impl LoaderChecksum { pub fn r#gen(_b: &[u8]) -> String { unimplemented!() } }
impl ModuleTextSource { pub fn try_get_original_bytes(&self) -> Option<std::sync::Arc<[u8]>> { unimplemented!() } }

verus! {
#[verifier::external_type_specification] #[verifier::external_body] pub struct ExBoxedFuture(BoxedFuture);
#[verifier::external_type_specification] #[verifier::external_body] pub struct ExContentLoads(ContentLoads);
#[verifier::external_type_specification] pub struct ExPendingJsrState(PendingJsrState);
pub struct PendingState<'a> { pub jsr: PendingJsrState, pub _m: Ghost<&'a u8> }

/// R24: a future created to be stored (its body is not extracted)
#[verifier::external_body]
pub fn vx_boxed_future() -> (f: BoxedFuture) { unimplemented!() }
pub assume_specification[ ContentLoads::push ](c: &mut ContentLoads, f: BoxedFuture);

/// src/source/mod.rs `Locker`: the lockfile interface, with a ghost view of its table of remote checksums
pub trait Locker {
    spec fn remote(&self) -> vstd::map::Map<Url, LoaderChecksum>;
    fn get_remote_checksum(&self, specifier: &Url) -> (r: Option<LoaderChecksum>)
        ensures r == (if self.remote().contains_key(*specifier) { Some(self.remote()[*specifier]) } else { None });
    fn has_remote_checksum(&self, specifier: &Url) -> (r: bool)
        ensures r == self.remote().contains_key(*specifier);
    fn set_remote_checksum(&mut self, specifier: &Url, checksum: LoaderChecksum)
        ensures final(self).remote() == old(self).remote().insert(*specifier, checksum);
}
/// the rest of the builder (parsing the module, queueing the loads of its dependencies / of a redirect target): ASSUMED
/// not to touch the lockfile's remote-checksum table
pub assume_specification<'a, 'graph>[ Builder::<'a, 'graph>::visit_module ](b: &mut Builder<'a, 'graph>, m: ModuleSourceAndInfo, v: Option<&JsrPackageVersionInfoExt>) -> (r: ModuleSlot)
    ensures
        final(b).locker is Some <==> old(b).locker is Some,
        old(b).locker is Some ==> (*final(b).locker->Some_0).remote() == (*old(b).locker->Some_0).remote();
pub assume_specification<'a, 'graph>[ Builder::<'a, 'graph>::load_with_redirect_count ](b: &mut Builder<'a, 'graph>, c: usize, o: LoadOptionsRef)
    ensures
        final(b).locker is Some <==> old(b).locker is Some,
        old(b).locker is Some ==> (*final(b).locker->Some_0).remote() == (*old(b).locker->Some_0).remote();
/// SHA-256 in lower-case hex (sha2 + format!): a deterministic function of the bytes
pub uninterp spec fn sha256_hex(b: Seq<u8>) -> Seq<char>;
pub assume_specification[ LoaderChecksum::r#gen ](b: &[u8]) -> (s: String)
    ensures s@ == sha256_hex(b@);
/// the bytes the loader supplied, when a text source still knows them (ModuleTextSource::try_get_original_bytes:
/// unsafe code, checked by the Kani harnesses of C20 on bounded inputs; here: deterministic)
pub uninterp spec fn original_bytes_of(s: ModuleTextSource) -> Option<std::sync::Arc<[u8]>>;
pub assume_specification[ ModuleTextSource::try_get_original_bytes ](s: &ModuleTextSource) -> (r: Option<std::sync::Arc<[u8]>>)
    ensures r == original_bytes_of(*s);
/// `opt_box.map(|v| *v)`
#[verifier::external_body]
pub fn vx_unbox_opt<T, F: FnOnce(Box<T>) -> T>(o: Option<Box<T>>, f: F) -> (r: Option<T>)
    ensures match o { Some(b) => r == Some(*b), None => r is None },
{ o.map(f) }
} // verus!
