// Stand-ins that the extraction rules themselves emit (DESIGN.md §2); included in EVERY unit, so that a change which
// introduces `unreachable!()`, `format!(..)` or `unwrap_or_else(|| panic!(..))` into a function under contract is read
// the same way everywhere.
verus! {
/// R18: `OPT.unwrap_or_else(|| panic!(..))` -> `vx_expect(OPT)`: the code asserts the value is present; proving the
/// call safe means proving that it is
#[verifier::external_body]
pub fn vx_expect<T>(o: Option<T>) -> (r: T)
    requires o is Some,
    ensures r == o.unwrap(),
{ o.unwrap() }
/// R21: `unreachable!()`: proving the call safe means proving that the place is never reached
#[verifier::external_body]
pub fn vx_unreachable() -> !
    requires false,
{ unreachable!() }
/// R26: `assert!(c)` / `assert_eq!(a, b)`: proving the call safe means proving the condition
#[verifier::external_body]
pub fn vx_assert(c: bool)
    requires c,
{ assert!(c) }
/// R22: `format!(..)`: an unspecified String (message texts are not modelled)
#[verifier::external_body]
pub fn vx_fmt() -> (s: String) { unimplemented!() }
} // verus!
