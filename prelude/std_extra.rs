// ASSUMED specifications of std functions that vstd does not cover (each restates the std doc).
verus! {

pub assume_specification<T>[ std::option::Option::<std::option::Option<T>>::flatten ](o: Option<Option<T>>) -> (r: Option<T>)
    ensures r == (match o { Some(x) => x, None => None });

pub assume_specification<T>[ bool::then_some ](b: bool, t: T) -> (r: Option<T>)
    where T: std::marker::Destruct,
    ensures r == (if b { Some(t) } else { None::<T> });

/// `OPT.map(f)` (R7 wrapper)
#[verifier::external_body]
pub fn vx_opt_map<T, U, F: FnOnce(T) -> U>(o: Option<T>, f: F) -> (r: Option<U>)
    requires o is Some ==> f.requires((o.unwrap(),)),
    ensures o is None ==> r is None, o is Some ==> r is Some && f.ensures((o.unwrap(),), r.unwrap()),
{ o.map(f) }
} // verus!
