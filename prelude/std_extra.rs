// ASSUMED specifications of std functions that vstd does not cover (each restates the std doc).
verus! {

pub assume_specification<T>[ std::option::Option::<std::option::Option<T>>::flatten ](o: Option<Option<T>>) -> (r: Option<T>)
    ensures r == (match o { Some(x) => x, None => None });

pub assume_specification<T>[ bool::then_some ](b: bool, t: T) -> (r: Option<T>)
    where T: std::marker::Destruct,
    ensures r == (if b { Some(t) } else { None::<T> });

} // verus!
