// url::Url stand-in (opaque) and the ASSUMED specifications of what the extracted code calls on it
// (DESIGN.md §3.3).  Nothing here is verified.
#[derive(PartialEq, Eq, PartialOrd, Ord, Hash)]
pub struct Url { _p: u64 }
#[derive(Debug)] pub struct UrlParseError { _p: u64 }
impl Url {
  pub fn scheme(&self) -> &str { unimplemented!() }
  pub fn parse(_s: &str) -> Result<Url, UrlParseError> { unimplemented!() }
}
impl Clone for Url { fn clone(&self) -> Self { unimplemented!() } }
pub type ModuleSpecifier = Url;

verus! {

#[verifier::external_type_specification]
#[verifier::external_body]
pub struct ExUrl(Url);

// Url's Eq/Ord/Hash are lawful (assumed: url::Url derives them from its serialization)
pub proof fn axiom_url_laws()
    ensures
        vstd::laws_cmp::obeys_cmp_spec::<Url>(),
        vstd::std_specs::hash::obeys_key_model::<Url>(),
        vstd::std_specs::hash::obeys_key_model::<&Url>(),
{ admit(); }

// `==` / `!=` on Url compare values (assumed: derived PartialEq on the serialization)
impl vstd::std_specs::cmp::PartialEqSpecImpl for Url {
    open spec fn obeys_eq_spec() -> bool { true }
    open spec fn eq_spec(&self, other: &Url) -> bool { *self == *other }
}
pub assume_specification[ <Url as PartialEq>::eq ](a: &Url, b: &Url) -> (r: bool)
    ensures r == (*a == *b);

pub uninterp spec fn url_scheme(u: Url) -> Seq<char>;
pub assume_specification[ Url::scheme ](u: &Url) -> (s: &str)
    ensures s@ == url_scheme(*u);
pub assume_specification[ <Url as Clone>::clone ](u: &Url) -> (c: Url)
    ensures c == *u;


#[verifier::external_type_specification] #[verifier::external_body] pub struct ExUrlParseError(UrlParseError);
/// `Url::parse` is a deterministic function of the text
pub uninterp spec fn url_parse(s: Seq<char>) -> Option<Url>;
pub assume_specification[ Url::parse ](s: &str) -> (r: Result<Url, UrlParseError>)
    ensures match r { Ok(u) => url_parse(s@) == Some(u), Err(_) => url_parse(s@) is None };

} // verus!
