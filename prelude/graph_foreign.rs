// Opaque stand-ins for the foreign types the graph algorithms mention (url::Url, indexmap,
// SystemTime, error payloads, ...) and ASSUMED specifications of the foreign functions called on
// them (DESIGN.md §3.3).  Nothing here is verified.
use std::collections::{BTreeMap, BTreeSet, HashMap, HashSet, VecDeque};
use std::sync::Arc;
use std::cmp::Ordering;
use vstd::std_specs::iter::IteratorSpec;

// (url::Url: prelude/url_foreign.rs)

macro_rules! opaque { ($($n:ident),*) => { $( pub struct $n { _p: u64 } impl Clone for $n { fn clone(&self) -> Self { unimplemented!() } } )* } }
#[derive(Clone, Copy)] pub struct SystemTime { _p: u64 }
opaque!(CacheInfo, ImportAttributes, SpecifierError, ResolveError, ChecksumIntegrityError, LoadError, JsrLoadError, NpmLoadError, JsErrorBox, WasmParseError, NpmPackageReqReference, FastCheckDiagnostic, FastCheckDtsModule, PackageSpecifiers);
pub trait JsErrorClass {}
pub mod wasm_dep_analyzer { pub use super::WasmParseError as ParseError; }
// (mod fast_check: prelude/fc_mod_min.rs, or prelude/fcg_foreign.rs in the fcgraph unit)

verus! {

#[verifier::external_type_specification] #[verifier::external_body] pub struct ExSystemTime(SystemTime);
#[verifier::external_type_specification] #[verifier::external_body] pub struct ExPackageSpecifiersOpaque(PackageSpecifiers);
#[verifier::external_trait_specification] pub trait ExJsErrorClass { type ExternalTraitSpecificationFor: JsErrorClass; }
#[verifier::external_type_specification] #[verifier::external_body] pub struct ExCacheInfo(CacheInfo);
#[verifier::external_type_specification] #[verifier::external_body] pub struct ExImportAttributes(ImportAttributes);
#[verifier::external_type_specification] #[verifier::external_body] pub struct ExSpecifierError(SpecifierError);
#[verifier::external_type_specification] #[verifier::external_body] pub struct ExResolveError(ResolveError);
#[verifier::external_type_specification] #[verifier::external_body] pub struct ExChecksumIntegrityError(ChecksumIntegrityError);
#[verifier::external_type_specification] #[verifier::external_body] pub struct ExLoadError(LoadError);
#[verifier::external_type_specification] #[verifier::external_body] pub struct ExJsrLoadError(JsrLoadError);
#[verifier::external_type_specification] #[verifier::external_body] pub struct ExNpmLoadError(NpmLoadError);
#[verifier::external_type_specification] #[verifier::external_body] pub struct ExIoError(std::io::Error);
#[verifier::external_type_specification] #[verifier::external_body] pub struct ExJsErrorBox(JsErrorBox);
#[verifier::external_type_specification] #[verifier::external_body] pub struct ExWasmParseError(WasmParseError);
#[verifier::external_type_specification] #[verifier::external_body] pub struct ExNpmPackageReqReference(NpmPackageReqReference);
#[verifier::external_type_specification] #[verifier::external_body] pub struct ExFastCheckDiagnostic(FastCheckDiagnostic);
#[verifier::external_type_specification] #[verifier::external_body] pub struct ExFastCheckDtsModule(FastCheckDtsModule);

} // verus!
