// Opaque stand-ins for foreign types (deno_semver, chrono) and the ASSUMED specifications of the
// foreign functions the extracted code calls on them (DESIGN.md §3.3).  Nothing here is verified.
use std::cmp::Ordering;
use std::collections::{HashMap, HashSet, BTreeSet, BTreeMap};
use vstd::std_specs::iter::IteratorSpec;

#[derive(Clone, PartialEq, Eq, PartialOrd, Ord, Hash)]
pub struct Version { _p: u64 }
pub struct VersionReq { _p: u64 }
impl VersionReq { pub fn matches(&self, _v: &Version) -> bool { unimplemented!() } }
impl Clone for VersionReq { fn clone(&self) -> Self { unimplemented!() } }
#[derive(PartialEq, Eq, PartialOrd, Ord, Hash)]
pub struct PackageName { _p: u64 }
impl PackageName {
  pub fn as_str(&self) -> &str { unimplemented!() }
  pub fn starts_with(&self, _p: &str) -> bool { unimplemented!() }
}
impl Clone for PackageName { fn clone(&self) -> Self { unimplemented!() } }
impl std::borrow::Borrow<str> for PackageName { fn borrow(&self) -> &str { unimplemented!() } }
impl std::ops::Deref for PackageName { type Target = str; fn deref(&self) -> &str { unimplemented!() } }
pub mod chrono {
  #[derive(Clone, Copy)]
  pub struct Utc;
  #[derive(Clone, Copy)]
  pub struct DateTime<T> { _p: i64, _t: core::marker::PhantomData<T> }
  impl PartialEq for DateTime<Utc> { fn eq(&self, _o: &Self) -> bool { unimplemented!() } }
  impl PartialOrd for DateTime<Utc> { fn partial_cmp(&self, _o: &Self) -> Option<core::cmp::Ordering> { unimplemented!() } }
}

verus! {

#[verifier::external_type_specification]
#[verifier::external_body]
pub struct ExVersion(Version);

#[verifier::external_type_specification]
#[verifier::external_body]
pub struct ExVersionReq(VersionReq);

#[verifier::external_type_specification]
#[verifier::external_body]
pub struct ExPackageName(PackageName);

#[verifier::external_type_specification]
#[verifier::external_body]
pub struct ExUtc(chrono::Utc);

#[verifier::external_type_specification]
#[verifier::external_body]
#[verifier::reject_recursive_types(T)]
pub struct ExDateTime<T>(chrono::DateTime<T>);

pub type Date = chrono::DateTime<chrono::Utc>;

// ---- Version: a lawful strict total order (assumed: deno_semver::Version implements Ord lawfully)
pub uninterp spec fn v_lt(a: Version, b: Version) -> bool;

pub proof fn axiom_v_lt_order()
    ensures
        forall|a: Version| !#[trigger] v_lt(a, a),
        forall|a: Version, b: Version, c: Version| #[trigger] v_lt(a, b) && #[trigger] v_lt(b, c) ==> v_lt(a, c),
        forall|a: Version, b: Version| #![trigger v_lt(a, b)] v_lt(a, b) || v_lt(b, a) || a == b,
{ admit(); }

pub assume_specification[ <Version as Ord>::cmp ](a: &Version, b: &Version) -> (o: Ordering)
    ensures (o == Ordering::Less) == v_lt(*a, *b),
            (o == Ordering::Greater) == v_lt(*b, *a);

pub assume_specification[ Ordering::is_lt ](o: Ordering) -> (b: bool)
    ensures b == (o == Ordering::Less);

// Version's Hash/Eq are lawful (assumed: deno_semver derives them), so it is a valid hash key
pub proof fn axiom_version_key_model()
    ensures vstd::std_specs::hash::obeys_key_model::<Version>(),
{ admit(); }

// ---- VersionReq::matches: a deterministic predicate of (req, version)
pub uninterp spec fn req_matches(r: VersionReq, v: Version) -> bool;

pub assume_specification[ VersionReq::matches ](r: &VersionReq, v: &Version) -> (b: bool)
    ensures b == req_matches(*r, *v);

pub assume_specification[ <VersionReq as Clone>::clone ](r: &VersionReq) -> (c: VersionReq)
    ensures c == *r;

// ---- chrono::DateTime<Utc>: `<` is a deterministic strict comparison
pub uninterp spec fn date_cmp(a: Date, b: Date) -> Option<Ordering>;

impl vstd::std_specs::cmp::PartialOrdSpecImpl for chrono::DateTime<chrono::Utc> {
    open spec fn obeys_partial_cmp_spec() -> bool { true }
    open spec fn partial_cmp_spec(&self, other: &Self) -> Option<Ordering> { date_cmp(*self, *other) }
}

pub assume_specification[ <chrono::DateTime<chrono::Utc> as PartialOrd>::partial_cmp ](a: &Date, b: &Date) -> (r: Option<Ordering>)
    ensures r == date_cmp(*a, *b);

pub open spec fn date_lt(a: Date, b: Date) -> bool { date_cmp(a, b) == Some(Ordering::Less) }

// ---- PackageName (deno_semver StackString): text and prefix test
pub uninterp spec fn pn_text(n: PackageName) -> Seq<char>;

// PackageName's Ord is lawful (assumed), so it is a valid BTreeSet key
pub proof fn axiom_package_name_order()
    ensures vstd::laws_cmp::obeys_cmp_spec::<PackageName>(),
{ admit(); }

pub assume_specification[ PackageName::as_str ](n: &PackageName) -> (s: &str)
    ensures s@ == pn_text(*n);

pub assume_specification[ PackageName::starts_with ](n: &PackageName, p: &str) -> (b: bool)
    ensures b == p@.is_prefix_of(pn_text(*n));

pub assume_specification[ <PackageName as Clone>::clone ](r: &PackageName) -> (c: PackageName)
    ensures c == *r;

} // verus!

verus! {
// ---- deno_semver::package::{PackageReq, PackageNv}: plain records (transparent stand-ins)
pub struct PackageReq { pub name: PackageName, pub version_req: VersionReq }
impl Clone for PackageReq {
    fn clone(&self) -> (r: Self) ensures r == *self {
        PackageReq { name: self.name.clone(), version_req: self.version_req.clone() }
    }
}
} // verus!
