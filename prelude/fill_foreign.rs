// Stand-ins for what fill_module_dependencies calls outside itself: specifier resolution (resolver / jsr url
// provider: trait objects), dynamic-template expansion through the file system, MediaType helpers
// (DESIGN.md §3.3).  Nothing here is verified; the functions are ASSUMED deterministic.
pub trait JsrUrlProvider {}
pub trait Resolver {}
pub trait FsReadDirBoxed {}
pub type FileSystem = dyn FsReadDirBoxed;
pub fn resolve(_t: &str, _r: Range, _k: ResolutionKind, _j: &dyn JsrUrlProvider, _m: Option<&dyn Resolver>) -> Resolution { unimplemented!() }
pub fn resolve_with_attribute_type(_t: &str, _r: Range, _k: ResolutionKind, _a: Option<&str>, _j: &dyn JsrUrlProvider, _m: Option<&dyn Resolver>) -> Resolution { unimplemented!() }
impl<K, V> IndexMap<K, V> { pub fn retain<F: FnMut(&K, &mut V) -> bool>(&mut self, _f: F) { unimplemented!() } }
pub fn analyze_dynamic_arg_template_parts(_p: &[DynamicTemplatePart], _s: &Url, _r: &PositionRange, _a: &ImportAttributes, _fs: &FileSystem) -> Vec<String> { unimplemented!() }

verus! {
impl Clone for ImportAttributes {
    /// `#[derive(Clone)]` (assumed to return an equal value)
    #[verifier::external_body]
    fn clone(&self) -> (r: Self) ensures r == *self { unimplemented!() }
}
/// `map.entry(k).or_default()` on an IndexMap<String, Dependency> (R7 chain wrapper): a mutable reference to the
/// value stored under the key text, appending a default Dependency first when the key is new; everything else in the
/// map keeps its position and value
#[verifier::external_body]
pub fn vx_im_entry_or_default<'a>(m: &'a mut IndexMap<String, Dependency>, k: String) -> (r: &'a mut Dependency)
    ensures
        im_get(*old(m), k@) is Some ==> *r == im_get(*old(m), k@).unwrap() && im_keys(*final(m)) == im_keys(*old(m)),
        im_get(*old(m), k@) is None ==> is_default_dep(*r) && im_keys(*final(m)) == im_keys(*old(m)).push(k),
        im_vals(*final(m)).len() == im_keys(*final(m)).len(),
        forall|i: int| 0 <= i < im_keys(*final(m)).len() ==> #[trigger] im_vals(*final(m))[i] == (if im_keys(*final(m))[i]@ == k@ { *final(r) } else { im_vals(*old(m))[i] }),
{ unimplemented!() }
/// `Dependency::default()`: nothing resolved, no imports, not dynamic
pub open spec fn is_default_dep(d: Dependency) -> bool {
    d.maybe_code is None && d.maybe_type is None && d.maybe_deno_types_specifier is None && d.maybe_attribute_type is None
      && !d.is_dynamic && d.imports@.len() == 0
}
/// `b.then(f)` (R7 wrapper)
#[verifier::external_body]
pub fn vx_then<T, F: FnOnce() -> T>(b: bool, f: F) -> (r: Option<T>)
    requires b ==> f.requires(()),
    ensures !b ==> r is None, b ==> r is Some && f.ensures((), r.unwrap()),
{ b.then(f) }
/// `attrs.get(key).and_then(f).map(g)` (R7 chain wrapper; nothing is claimed about the result)
#[verifier::external_body]
pub fn vx_attr_and_then_map<T, U, A: FnOnce(&str) -> Option<T>, B: FnOnce(T) -> U>(a: &ImportAttributes, k: &str, f: A, g: B) -> (r: Option<U>)
{ a.get(k).and_then(f).map(g) }
/// whether the attribute list `a` names a value for the key `k` (`ImportAttributes::get(k)` is `Some`)
pub uninterp spec fn attr_has(a: ImportAttributes, k: Seq<char>) -> bool;
/// `attrs.get(key).map(g)` (R7 chain wrapper; ASSUMED: a value comes back exactly when the list names the key;
/// nothing is claimed about the value itself)
#[verifier::external_body]
pub fn vx_attr_map<U, B: FnOnce(&str) -> U>(a: &ImportAttributes, k: &str, g: B) -> (r: Option<U>)
    ensures (r is Some) == attr_has(*a, k@),
{ a.get(k).map(g) }
/// `specifiers.into_iter().map(f).collect::<Vec<_>>()` (R7 chain wrapper): the images in order
#[verifier::external_body]
pub fn vx_vec_map_collect<T, U, F: FnMut(T) -> U>(v: Vec<T>, f: F) -> (r: Vec<U>)
    requires forall|x: T| #[trigger] f.requires((x,)),
    ensures r@.len() == v@.len(), forall|i: int| 0 <= i < v@.len() ==> f.ensures((v@[i],), #[trigger] r@[i]),
{ v.into_iter().map(f).collect() }
/// `vec.sort()` (R7 wrapper): a permutation (no claim about the order is used)
#[verifier::external_body]
pub fn vx_sort_strings(v: &mut Vec<String>)
    ensures final(v)@.len() == old(v)@.len(), final(v)@.to_multiset() == old(v)@.to_multiset(),
{ v.sort() }
/// `opt_string.as_deref()` (R7 wrapper)
#[verifier::external_body]
pub fn vx_as_deref(o: &Option<String>) -> (r: Option<&str>)
    ensures match r { Some(s) => *o is Some && s@ == o->Some_0@, None => *o is None },
{ o.as_deref() }
/// `index_map.retain(f)` (R7 wrapper): the predicate is called once per entry, in order; exactly the entries it
/// accepted are kept (in order), with their values as the predicate left them
#[verifier::external_body]
pub fn vx_im_retain<V, F: FnMut(&String, &mut V) -> bool>(m: &mut IndexMap<String, V>, f: F)
    requires forall|k: &String, v: &mut V| #[trigger] f.requires((k, v)),
    ensures
        forall|j: int| #![trigger im_keys(*final(m))[j]] 0 <= j < im_keys(*final(m)).len() ==> exists|i: int, vr: &mut V| #![trigger f.ensures((&im_keys(*old(m))[i], vr), true)] 0 <= i < im_keys(*old(m)).len() && im_keys(*old(m))[i] == im_keys(*final(m))[j]
            && f.ensures((&im_keys(*old(m))[i], vr), true) && *vr == im_vals(*old(m))[i] && im_vals(*final(m))[j] == *final(vr),
        im_vals(*final(m)).len() == im_keys(*final(m)).len(),
{ unimplemented!() }
/// `vec.retain(f)` (R7 wrapper): exactly the accepted elements are kept, in order
#[verifier::external_body]
pub fn vx_vec_retain<T, F: FnMut(&T) -> bool>(v: &mut Vec<T>, f: F)
    requires forall|x: &T| #[trigger] f.requires((x,)),
    ensures
        forall|j: int| 0 <= j < final(v)@.len() ==> old(v)@.contains(#[trigger] final(v)@[j]) && f.ensures((&final(v)@[j],), true),
        // an element the predicate cannot reject is kept
        forall|i: int| 0 <= i < old(v)@.len() && !f.ensures((&#[trigger] old(v)@[i],), false) ==> final(v)@.contains(old(v)@[i]),
        final(v)@.len() <= old(v)@.len(),
{ v.retain(f) }
#[verifier::external_trait_specification] pub trait ExFillJsrUrlProvider { type ExternalTraitSpecificationFor: JsrUrlProvider; }
#[verifier::external_trait_specification] pub trait ExFillResolver { type ExternalTraitSpecificationFor: Resolver; }
#[verifier::external_trait_specification] pub trait ExFsReadDirBoxed { type ExternalTraitSpecificationFor: FsReadDirBoxed; }

/// resolving a specifier text from a referrer range (resolver in use / default resolution): deterministic
pub uninterp spec fn resolve_spec_fn(t: Seq<char>, r: Range, k: ResolutionKind, attr: Option<Seq<char>>) -> Resolution;
pub assume_specification[ resolve ](t: &str, r: Range, k: ResolutionKind, j: &dyn JsrUrlProvider, m: Option<&dyn Resolver>) -> (x: Resolution)
    ensures x == resolve_spec_fn(t@, r, k, None), !(x is None);  // Resolution::from_resolve_result yields Ok or Err
pub assume_specification[ resolve_with_attribute_type ](t: &str, r: Range, k: ResolutionKind, a: Option<&str>, j: &dyn JsrUrlProvider, m: Option<&dyn Resolver>) -> (x: Resolution)
    ensures x == resolve_spec_fn(t@, r, k, match a { Some(s) => Some(s@), None => None }), !(x is None);
pub assume_specification[ analyze_dynamic_arg_template_parts ](p: &[DynamicTemplatePart], s: &Url, r: &PositionRange, a: &ImportAttributes, fs: &FileSystem) -> (v: Vec<String>);
} // verus!
