// Stand-ins for Builder::restart: the pending state (reset to its default), the future that re-runs the build
// (R24: created, not run, here).  Nothing here is verified.
pub struct PendingState<'a> { _p: &'a u64 }
impl<'a> Default for PendingState<'a> { fn default() -> Self { unimplemented!() } }
pub struct ReferrerImports { _p: u64 }
pub struct LocalBoxFuture<'a, T> { _p: &'a T }
verus! {
#[verifier::external_type_specification] #[verifier::external_body] pub struct ExRsPendingState<'a>(PendingState<'a>);
#[verifier::external_type_specification] #[verifier::external_body] #[verifier::reject_recursive_types(T)] pub struct ExRsLocalBoxFuture<'a, T>(LocalBoxFuture<'a, T>);
#[verifier::external_type_specification] #[verifier::external_body] pub struct ExRsReferrerImports(ReferrerImports);
pub assume_specification<'a>[ <PendingState<'a> as Default>::default ]() -> (r: PendingState<'a>);
/// `#[derive(Clone)]` of the package table (assumed to return an equal value)
pub assume_specification[ <PackageSpecifiers as Clone>::clone ](p: &PackageSpecifiers) -> (r: PackageSpecifiers) ensures r == *p;
/// R24: the future that re-runs the build after the reset (its body runs later, outside this function)
#[verifier::external_body]
pub fn vx_boxed_future<'a>() -> (f: LocalBoxFuture<'a, ()>) { unimplemented!() }
} // verus!
