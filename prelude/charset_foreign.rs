pub mod url { pub use crate::Url; }
verus! {
// (slice `starts_with` already has a vstd specification)
pub proof fn axiom_str_view_injective2()
    ensures forall|a: &str, b: &str| a@ == b@ ==> a == b,
{ admit(); }
} // verus!
