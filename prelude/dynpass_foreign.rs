// Stand-ins for Builder::resolve_dynamic_branches and Builder::handle_provided_imports (on top of the ghost-log
// stand-ins of visitdeps_foreign.rs): iteration of a HashMap by value, GraphImport::new, IndexMap::insert.
// Nothing here is verified.
pub struct BranchIter { _p: u64 }
impl Iterator for BranchIter { type Item = (Url, PendingDynamicBranch); fn next(&mut self) -> Option<(Url, PendingDynamicBranch)> { unimplemented!() } }
pub struct ReferrerImports { pub referrer: Url, pub imports: Vec<String> }
pub trait JsrUrlProvider {}
pub trait Resolver {}
impl GraphImport { pub fn new(_r: &Url, _i: Vec<String>, _j: &dyn JsrUrlProvider, _m: Option<&dyn Resolver>) -> Self { unimplemented!() } }
impl<K, V> IndexMap<K, V> { pub fn insert(&mut self, _k: K, _v: V) -> Option<V> { unimplemented!() } }
verus! {
#[verifier::external_type_specification] #[verifier::external_body] pub struct ExDpBranchIter(BranchIter);
#[verifier::external_type_specification] pub struct ExDpReferrerImports(ReferrerImports);
#[verifier::external_trait_specification] pub trait ExDpJsrUrlProvider { type ExternalTraitSpecificationFor: JsrUrlProvider; }
#[verifier::external_trait_specification] pub trait ExDpResolver { type ExternalTraitSpecificationFor: Resolver; }
/// `mem::take`: hands out the value and leaves `T::default()` behind
pub assume_specification<T: Default>[ std::mem::take::<T> ](dest: &mut T) -> (r: T)
    ensures r == *old(dest), call_ensures(<T as Default>::default, (), *final(dest));
/// `for (k, v) in hash_map` by value (R6 + R7 wrapper): every entry exactly once, in SOME order
#[verifier::external_body]
pub fn vx_branches_into_iter(m: std::collections::HashMap<Url, PendingDynamicBranch>) -> (r: BranchIter)
    ensures
        r.obeys_prophetic_iter_laws(),
        r.remaining().len() == m@.dom().len(),
        forall|i: int| 0 <= i < r.remaining().len() ==> m@.contains_key((#[trigger] r.remaining()[i]).0) && m@[r.remaining()[i].0] == r.remaining()[i].1,
        forall|i: int, j: int| 0 <= i < j < r.remaining().len() ==> r.remaining()[i].0 != r.remaining()[j].0,
{ unimplemented!() }
/// GraphImport::new: the configured imports of `referrer`, each resolved as a type import (deterministic)
pub uninterp spec fn graph_import_of(r: Url, imports: Vec<String>) -> GraphImport;
pub assume_specification[ GraphImport::new ](r: &Url, i: Vec<String>, j: &dyn JsrUrlProvider, m: Option<&dyn Resolver>) -> (g: GraphImport)
    ensures g == graph_import_of(*r, i);
/// indexmap `IndexMap::insert`: appends a new key, or replaces the value of an existing one in place
pub assume_specification<K, V>[ IndexMap::<K, V>::insert ](m: &mut IndexMap<K, V>, k: K, v: V) -> (r: Option<V>)
    ensures
        forall|i: int| 0 <= i < im_keys(*old(m)).len() && im_keys(*old(m))[i] == k ==> im_keys(*final(m)) == im_keys(*old(m)) && im_vals(*final(m)) == im_vals(*old(m)).update(i, v),
        (forall|i: int| 0 <= i < im_keys(*old(m)).len() ==> im_keys(*old(m))[i] != k) ==> im_keys(*final(m)) == im_keys(*old(m)).push(k) && im_vals(*final(m)) == im_vals(*old(m)).push(v);
} // verus!
// ---- Builder::build (entry point of a build)
impl<'a, 'graph> Builder<'a, 'graph> {
  pub fn resolve_pending(&mut self) -> bool { unimplemented!() }
  pub fn restart(&mut self, _r: Vec<Url>, _i: Vec<ReferrerImports>) { unimplemented!() }
}
impl Clone for ReferrerImports { fn clone(&self) -> Self { unimplemented!() } }
impl<K, V> IndexMap<K, V> { pub fn contains_key(&self, _k: &K) -> bool { unimplemented!() } }
verus! {
/// `provided.iter().filter(f).cloned().collect::<Vec<_>>()` (R7 chain wrapper): the items `f` accepts, in order
#[verifier::external_body]
pub fn vx_filter_cloned_collect<T: Clone, F: FnMut(&&T) -> bool>(v: &Vec<T>, f: F) -> (r: Vec<T>)
    requires forall|x: &&T| f.requires((x,)),
    ensures
        exists|idx: Seq<int>| #[trigger] is_selection(idx, v@.len() as int) && r@.len() == idx.len()
            && (forall|k: int| 0 <= k < idx.len() ==> r@[k] == v@[#[trigger] idx[k]] && f.ensures((&&v@[idx[k]],), true))
            && (forall|i: int| 0 <= i < v@.len() && !idx.contains(i) ==> f.ensures((&&v@[i],), false)),
{ unimplemented!() }
/// strictly increasing positions below n
pub open spec fn is_selection(idx: Seq<int>, n: int) -> bool {
    (forall|k: int| 0 <= k < idx.len() ==> 0 <= #[trigger] idx[k] < n) && (forall|a: int, b: int| 0 <= a < b < idx.len() ==> idx[a] < idx[b])
}
/// `index_set.extend(vec)` (R7 wrapper): appends, in order, the items that are not yet contained
#[verifier::external_body]
pub fn vx_set_extend_vec(s: &mut IndexSet<Url>, v: Vec<Url>)
    ensures
        is_seq(*old(s)).is_prefix_of(is_seq(*final(s))),
        forall|x: Url| #![trigger is_seq(*final(s)).contains(x)] is_seq(*final(s)).contains(x) <==> (is_seq(*old(s)).contains(x) || v@.contains(x)),
{ unimplemented!() }
pub assume_specification<K, V>[ IndexMap::<K, V>::contains_key ](m: &IndexMap<K, V>, k: &K) -> (r: bool)
    ensures r == im_keys(*m).contains(*k);
pub assume_specification[ <ReferrerImports as Clone>::clone ](r: &ReferrerImports) -> (c: ReferrerImports) ensures c == *r;
/// the rest of the build (contracts in the units pendloop / restart): here only that they are called
/// ASSUMED frames: draining the queues never touches the configured imports; a restart re-runs the build with the
/// provided imports (recursion: the property it is assumed to re-establish is the one `build` ensures)
pub assume_specification<'a, 'graph>[ Builder::<'a, 'graph>::resolve_pending ](b: &mut Builder<'a, 'graph>) -> (r: bool)
    ensures im_keys((*final(b).graph).imports) == im_keys((*old(b).graph).imports);
pub assume_specification<'a, 'graph>[ Builder::<'a, 'graph>::restart ](b: &mut Builder<'a, 'graph>, r: Vec<Url>, i: Vec<ReferrerImports>)
    ensures forall|k: int| 0 <= k < i@.len() ==> im_keys((*final(b).graph).imports).contains((#[trigger] i@[k]).referrer);
} // verus!
