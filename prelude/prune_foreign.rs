// IndexSet mutation API used by SeenPendingCollection; IndexMap::values_mut / clear; BTreeMap::retain
impl<K> IndexSet<K> {
  pub fn with_capacity(_n: usize) -> Self { unimplemented!() }
  pub fn insert(&mut self, _k: K) -> bool { unimplemented!() }
  pub fn extend<I: Iterator<Item = K>>(&mut self, _it: I) { unimplemented!() }
  pub fn get_index(&self, _i: usize) -> Option<&K> { unimplemented!() }
}
impl<K, V> IndexMap<K, V> {
  pub fn clear(&mut self) { unimplemented!() }
}
pub struct ClonedUrls<'a> { _i: IndexSetIter<'a, Url> }
impl<'a> Iterator for ClonedUrls<'a> { type Item = Url; fn next(&mut self) -> Option<Url> { unimplemented!() } }
verus! {
/// std `BTreeMap::retain` (R7 wrapper): the predicate is called once per entry; exactly the
/// entries it accepted are kept, with their values as the predicate left them
#[verifier::external_body]
pub fn vx_retain<K: Ord, V, F: FnMut(&K, &mut V) -> bool>(map: &mut std::collections::BTreeMap<K, V>, f: F)
    requires
        vstd::laws_cmp::obeys_cmp_spec::<K>(),
        forall|k: &K, v: &mut V| #[trigger] f.requires((k, v)),
    ensures
        forall|k: K| #[trigger] final(map)@.contains_key(k) ==> old(map)@.contains_key(k),
        forall|k: K| #[trigger] old(map)@.contains_key(k) ==> exists|vr: &mut V, b: bool| #[trigger] f.ensures((&k, vr), b)
            && *vr == old(map)@[k] && (final(map)@.contains_key(k) <==> b) && (b ==> final(map)@[k] == *final(vr)),
{
    map.retain(f)
}
} // verus!
verus! {

pub assume_specification<K>[ IndexSet::<K>::with_capacity ](n: usize) -> (r: IndexSet<K>)
    ensures is_seq(r).len() == 0;

/// indexmap `IndexSet::insert`: appends when new (returns true), otherwise leaves the set alone
pub assume_specification<K>[ IndexSet::<K>::insert ](s: &mut IndexSet<K>, k: K) -> (r: bool)
    ensures
        r == !is_seq(*old(s)).contains(k),
        is_seq(*final(s)) == (if r { is_seq(*old(s)).push(k) } else { is_seq(*old(s)) });

/// `extend`: inserts every item in order (existing positions are kept)
pub assume_specification<K, I: Iterator<Item = K>>[ IndexSet::<K>::extend ](s: &mut IndexSet<K>, it: I)
    requires it.obeys_prophetic_iter_laws(),
    ensures
        is_seq(*old(s)).is_prefix_of(is_seq(*final(s))),
        is_seq(*final(s)).no_duplicates(),
        forall|x: K| #![trigger is_seq(*final(s)).contains(x)] is_seq(*final(s)).contains(x) <==> (is_seq(*old(s)).contains(x) || it.remaining().contains(x));

pub assume_specification<'a, K>[ IndexSet::<K>::get_index ](s: &'a IndexSet<K>, i: usize) -> (r: Option<&'a K>)
    ensures
        i < is_seq(*s).len() ==> r == Some(&is_seq(*s)[i as int]),
        i >= is_seq(*s).len() ==> r is None;

pub assume_specification<K, V>[ IndexMap::<K, V>::clear ](m: &mut IndexMap<K, V>)
    ensures im_vals(*final(m)).len() == 0, im_keys(*final(m)).len() == 0;

/// `iter.cloned()` (R7 wrapper): the clones of the items, in order
#[verifier::external_type_specification]
#[verifier::external_body]
pub struct ExClonedUrls<'a>(ClonedUrls<'a>);
/// `set.iter().cloned()` (R7 chain wrapper): the set's items, cloned, in order
#[verifier::external_body]
pub fn vx_set_cloned<'a>(s: &'a IndexSet<Url>) -> (r: ClonedUrls<'a>)
    ensures
        r.obeys_prophetic_iter_laws(),
        r.remaining() == is_seq(*s),
{
    unimplemented!()
}
} // verus!
verus! {
pub assume_specification[ <std::sync::Arc<str> as Default>::default ]() -> (r: std::sync::Arc<str>)
    ensures r == empty_arc_str();
} // verus!
