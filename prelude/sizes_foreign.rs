// C20 size clause: byte length of a `str` / `[u8]` behind an Arc.
use vstd::string::StringSliceAdditionalSpecFns;
use std::sync::Arc;
#[derive(Clone, Copy, PartialEq, Eq)]
pub enum DecodedArcSourceDetailKind { Unchanged, Changed, OnlyUtf8Bom }
verus! {
#[verifier::external_type_specification]
pub struct ExDecodedArcSourceDetailKind(DecodedArcSourceDetailKind);

/// `text.len()` on an `Arc<str>` (R7 wrapper): the number of BYTES of the UTF-8 text
#[verifier::external_body]
pub fn vx_arc_str_len(text: &std::sync::Arc<str>) -> (r: usize)
    ensures r == (**text).spec_bytes().len(),
{
    text.len()
}
/// `bytes.len()` on an `Arc<[u8]>`
#[verifier::external_body]
pub fn vx_arc_bytes_len(bytes: &std::sync::Arc<[u8]>) -> (r: usize)
    ensures r == (**bytes)@.len(),
{
    bytes.len()
}
/// number of scalar values (what `chars().count()` computes) — different from the byte length
pub assume_specification<'a>[ <std::str::Chars<'a> as Iterator>::count ](c: std::str::Chars<'a>) -> (r: usize);
} // verus!
