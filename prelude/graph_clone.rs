// ASSUMED: the `#[derive(Clone)]` / `#[derive(Boxed)]` impls of the crate's own data types return
// values equal to the original (R1 drops the derives; these stand in for the generated code).
verus! {

impl Clone for Range {
    #[verifier::external_body]
    fn clone(&self) -> (r: Self) ensures r == *self { unimplemented!() }
}
impl Clone for ResolutionError {
    #[verifier::external_body]
    fn clone(&self) -> (r: Self) ensures r == *self { unimplemented!() }
}
impl Clone for ModuleError {
    #[verifier::external_body]
    fn clone(&self) -> (r: Self) ensures r == *self { unimplemented!() }
}
impl Clone for ModuleErrorKind {
    #[verifier::external_body]
    fn clone(&self) -> (r: Self) ensures r == *self { unimplemented!() }
}
impl Clone for ResolutionResolved {
    #[verifier::external_body]
    fn clone(&self) -> (r: Self) ensures r == *self { unimplemented!() }
}
impl Clone for Resolution {
    #[verifier::external_body]
    fn clone(&self) -> (r: Self) ensures r == *self { unimplemented!() }
}
impl Clone for Module {
    #[verifier::external_body]
    fn clone(&self) -> (r: Self) ensures r == *self { unimplemented!() }
}
impl Clone for ModuleSlot {
    #[verifier::external_body]
    fn clone(&self) -> (r: Self) ensures r == *self { unimplemented!() }
}
impl Clone for GraphImport {
    #[verifier::external_body]
    fn clone(&self) -> (r: Self) ensures r == *self { unimplemented!() }
}

impl ModuleError {
    /// boxed_error `#[derive(Boxed)]`: `as_kind` borrows the boxed kind
    #[verifier::external_body]
    pub fn as_kind(&self) -> (r: &ModuleErrorKind) ensures *r == *self.0 { &self.0 }
}
impl ModuleErrorKind {
    /// boxed_error `#[derive(Boxed)]`: `into_box` wraps the kind
    #[verifier::external_body]
    pub fn into_box(self) -> (r: ModuleError) ensures *r.0 == self { ModuleError(Box::new(self)) }
}

/// any two `str` with the same characters are the same value
pub proof fn axiom_str_view_injective()
    ensures forall|a: &str, b: &str| a@ == b@ ==> a == b,
{ admit(); }

pub uninterp spec fn str_lower(s: Seq<char>) -> Seq<char>;

/// `text.to_lowercase().starts_with(prefix)` (R7 chain wrapper)
#[verifier::external_body]
pub fn vx_lower_starts_with(text: &str, prefix: &str) -> (r: bool)
    ensures r == prefix@.is_prefix_of(str_lower(text@)),
{
    text.to_lowercase().starts_with(prefix)
}

pub uninterp spec fn str_trim_start(s: Seq<char>) -> Seq<char>;
/// `text.trim_start().to_lowercase().starts_with(prefix)` (R7 chain wrapper)
#[verifier::external_body]
pub fn vx_trim_lower_starts_with(text: &str, prefix: &str) -> (r: bool)
    ensures r == prefix@.is_prefix_of(str_lower(str_trim_start(text@))),
{
    text.trim_start().to_lowercase().starts_with(prefix)
}

} // verus!
