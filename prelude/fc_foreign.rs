// Stand-ins for what build_fast_check_type_graph / transform_package touch outside themselves: the swc-based
// pipeline (find_public_ranges, transform::transform, RootSymbol), the cache interface, hashing, serde
// (DESIGN.md §3.3).  Nothing here is verified; the functions are ASSUMED deterministic.
use std::sync::Arc;
pub mod symbols { pub use crate::RootSymbol; }
pub mod indexmap { pub use crate::IndexMap; }
pub mod url { pub use crate::Url; }
pub mod source { pub use crate::JsrUrlProvider; }
pub mod deno_semver { pub mod package { pub use crate::PackageNv; } }
macro_rules! fc_opaque { ($($n:ident),*) => { $( pub struct $n { _p: u64 } )* } }
fc_opaque!(Module, ModuleGraph, EsModuleInfo, FastCheckDiagnostic, FastCheckDtsModule, WorkspaceMember, ModuleInfo, SourceRange);
impl Clone for FastCheckDiagnostic { fn clone(&self) -> Self { unimplemented!() } }
impl FastCheckDiagnostic { pub fn specifier(&self) -> &Url { unimplemented!() } }
impl Module { pub fn source(&self) -> Option<&std::sync::Arc<str>> { unimplemented!() } }
impl ModuleGraph { pub fn get(&self, _s: &Url) -> Option<&Module> { unimplemented!() } }
pub fn fast_insecure_hash(_b: &[u8]) -> u64 { unimplemented!() }
impl FastCheckCacheKey { pub fn build(_seed: &'static str, _nv: &PackageNv, _eps: &std::collections::BTreeSet<Url>) -> Self { unimplemented!() } }
#[derive(Clone, Copy)] pub struct ModuleInfoRef<'a> { _p: &'a u64 }
impl<'a> ModuleInfoRef<'a> { pub fn esm(&self) -> Option<&'a EsModuleInfo> { unimplemented!() } }
pub struct RootSymbol<'a> { _p: &'a u64 }
impl<'a> RootSymbol<'a> { pub fn module_from_specifier(&self, _s: &Url) -> Option<ModuleInfoRef<'_>> { unimplemented!() } }
pub struct PkgIter { _p: u64 }
impl Iterator for PkgIter { type Item = (PackageNv, PackagePublicRanges); fn next(&mut self) -> Option<Self::Item> { unimplemented!() } }
pub struct UrlSetIter { _p: u64 }
impl Iterator for UrlSetIter { type Item = Url; fn next(&mut self) -> Option<Url> { unimplemented!() } }
pub struct RangesIter { _p: u64 }
impl Iterator for RangesIter { type Item = (Url, ModulePublicRanges); fn next(&mut self) -> Option<Self::Item> { unimplemented!() } }
pub mod range_finder {
  pub use crate::ModulePublicRanges;
  pub fn find_public_ranges<'a>(_c: Option<&'a dyn crate::FastCheckCache>, _j: &'a dyn crate::JsrUrlProvider, _g: &'a crate::ModuleGraph, _r: &'a crate::RootSymbol<'a>,
      _w: &'a [crate::WorkspaceMember], _p: std::collections::VecDeque<crate::PackageNv>) -> std::collections::HashMap<crate::PackageNv, crate::PackagePublicRanges> { unimplemented!() }
}
pub mod transform {
  pub fn transform(_g: &crate::ModuleGraph, _m: &crate::EsModuleInfo, _r: &crate::ModulePublicRanges, _o: &crate::TransformOptions) -> Result<crate::FastCheckModule, Vec<crate::FastCheckDiagnostic>> { unimplemented!() }
}

verus! {
#[verifier::external_type_specification] #[verifier::external_body] pub struct ExFcModuleGraph(ModuleGraph);
#[verifier::external_type_specification] #[verifier::external_body] pub struct ExFcModule(Module);
#[verifier::external_type_specification] #[verifier::external_body] pub struct ExEsModuleInfo(EsModuleInfo);
#[verifier::external_type_specification] #[verifier::external_body] pub struct ExFastCheckDiagnostic(FastCheckDiagnostic);
#[verifier::external_type_specification] #[verifier::external_body] pub struct ExFastCheckDtsModule(FastCheckDtsModule);
#[verifier::external_type_specification] #[verifier::external_body] pub struct ExWorkspaceMember(WorkspaceMember);
#[verifier::external_type_specification] #[verifier::external_body] pub struct ExFcModuleInfo(ModuleInfo);
#[verifier::external_type_specification] #[verifier::external_body] pub struct ExSourceRange(SourceRange);
#[verifier::external_type_specification] #[verifier::external_body] pub struct ExModuleInfoRef<'a>(ModuleInfoRef<'a>);
#[verifier::external_type_specification] #[verifier::external_body] pub struct ExRootSymbol<'a>(RootSymbol<'a>);
#[verifier::external_type_specification] #[verifier::external_body] pub struct ExPkgIter(PkgIter);
#[verifier::external_type_specification] #[verifier::external_body] pub struct ExRangesIter(RangesIter);
#[verifier::external_type_specification] #[verifier::external_body] pub struct ExUrlSetIter(UrlSetIter);
#[verifier::external_type_specification] #[verifier::external_body] pub struct ExJsonError(serde_json::Error);
pub assume_specification<T>[ serde_json::to_string::<T> ](v: &T) -> (r: Result<String, serde_json::Error>);
/// `serde_json::to_string(..).unwrap()` (R7 wrapper): ASSUMED not to fail for ModuleInfo (the code unwraps)
#[verifier::external_body]
pub fn vx_json_unwrap(r: Result<String, serde_json::Error>) -> (s: String)
{ r.unwrap() }
/// `for x in &vec` (R6 + R7 wrapper): references to the elements in order
#[verifier::external_body]
pub fn vx_vec_ref_iter<'a, T>(v: &'a Vec<T>) -> (r: std::slice::Iter<'a, T>)
    ensures
        r.obeys_prophetic_iter_laws(),
        r.remaining().len() == v@.len(),
        forall|i: int| 0 <= i < v@.len() ==> *(#[trigger] r.remaining()[i]) == v@[i],
{ v.iter() }
/// `for x in btree_set` by value: every element exactly once (ascending)
#[verifier::external_body]
pub fn vx_urlset_into_iter(s: std::collections::BTreeSet<Url>) -> (r: UrlSetIter)
    ensures
        r.obeys_prophetic_iter_laws(),
        r.remaining().no_duplicates(),
        forall|u: Url| r.remaining().contains(u) <==> s@.contains(u),
{ unimplemented!() }
/// `result.as_ref().ok().unwrap()` (R7 wrapper): the code asserts the result is Ok
#[verifier::external_body]
pub fn vx_ok_ref<'a, T, E>(r: &'a Result<T, E>) -> (x: &'a T)
    requires r is Ok,
    ensures *x == r->Ok_0,
{ r.as_ref().ok().unwrap() }
/// `graph.get(specifier).and_then(|m| m.source()).map(|s| fast_insecure_hash(s.as_bytes())).unwrap_or(0)`:
/// the cache's source hash of a module (no claim is made about it)
#[verifier::external_body]
pub fn vx_source_hash<A: for<'x> FnOnce(&'x Module) -> Option<&'x std::sync::Arc<str>>, B: for<'x> FnOnce(&'x std::sync::Arc<str>) -> u64>(g: &ModuleGraph, s: &Url, f1: A, f2: B, d: u64) -> (r: u64)
{ g.get(s).and_then(f1).map(f2).unwrap_or(d) }


/// src/source/mod.rs JsrUrlProvider (only passed through)
pub trait JsrUrlProvider { fn url(&self) -> &Url; }
/// src/fast_check/cache.rs FastCheckCache: an external store; `set` has no effect the extracted code can observe
pub trait FastCheckCache {
    fn hash_seed(&self) -> &'static str;
    fn get(&self, key: FastCheckCacheKey) -> Option<FastCheckCacheItem>;
    fn set(&self, key: FastCheckCacheKey, value: FastCheckCacheItem);
}

pub assume_specification[ <FastCheckDiagnostic as Clone>::clone ](d: &FastCheckDiagnostic) -> (c: FastCheckDiagnostic)
    ensures c == *d;
pub assume_specification<'a>[ FastCheckDiagnostic::specifier ](d: &'a FastCheckDiagnostic) -> (s: &'a Url);

pub uninterp spec fn module_of(r: RootSymbol, s: Url) -> Option<ModuleInfoRef>;
pub assume_specification<'a, 'b>[ RootSymbol::<'a>::module_from_specifier ](r: &'b RootSymbol<'a>, s: &Url) -> (m: Option<ModuleInfoRef<'b>>)
    ensures m == module_of(*r, *s);
pub uninterp spec fn esm_of(m: ModuleInfoRef) -> Option<EsModuleInfo>;
pub assume_specification<'a>[ ModuleInfoRef::<'a>::esm ](m: &ModuleInfoRef<'a>) -> (e: Option<&'a EsModuleInfo>)
    ensures match e { Some(x) => esm_of(*m) == Some(*x), None => esm_of(*m) is None };
/// the swc transform of one module: a deterministic function of its arguments
/// (of the public ranges it reads only the two range sets, not the diagnostics)
pub uninterp spec fn transform_spec(g: ModuleGraph, m: EsModuleInfo, ranges: std::collections::HashSet<SourceRange>, overloads: std::collections::HashSet<SourceRange>, o: TransformOptions) -> Result<FastCheckModule, Vec<FastCheckDiagnostic>>;
pub assume_specification[ transform::transform ](g: &ModuleGraph, m: &EsModuleInfo, r: &ModulePublicRanges, o: &TransformOptions) -> (x: Result<FastCheckModule, Vec<FastCheckDiagnostic>>)
    ensures x == transform_spec(*g, *m, r.ranges, r.impl_with_overload_ranges, *o),
            x is Err ==> x->Err_0@.len() > 0;  // every Err path of transform() carries at least one diagnostic (mark_diagnostic, emit)
/// the range finder: a deterministic function of its arguments; every module it lists is known to the root symbol
pub uninterp spec fn public_ranges_spec(g: ModuleGraph, r: RootSymbol, p: Seq<PackageNv>) -> vstd::map::Map<PackageNv, PackagePublicRanges>;
pub assume_specification<'a>[ range_finder::find_public_ranges ](c: Option<&'a dyn FastCheckCache>, j: &'a dyn JsrUrlProvider, g: &'a ModuleGraph, r: &'a RootSymbol<'a>,
      w: &'a [WorkspaceMember], p: std::collections::VecDeque<PackageNv>) -> (m: std::collections::HashMap<PackageNv, PackagePublicRanges>)
    ensures
        forall|nv: PackageNv, i: int| #![trigger im_keys(m@[nv].module_ranges)[i]] m@.contains_key(nv) && 0 <= i < im_keys(m@[nv].module_ranges).len()
            ==> module_of(*r, im_keys(m@[nv].module_ranges)[i]) is Some;

/// `for (k, v) in hash_map` (R6 + R7 wrapper): every entry exactly once, in an unspecified order
#[verifier::external_body]
pub fn vx_pkgs_into_iter(m: std::collections::HashMap<PackageNv, PackagePublicRanges>) -> (r: PkgIter)
    ensures
        r.obeys_prophetic_iter_laws(),
        forall|i: int| 0 <= i < r.remaining().len() ==> m@.contains_key((#[trigger] r.remaining()[i]).0) && m@[r.remaining()[i].0] == r.remaining()[i].1,
        forall|i: int, j: int| 0 <= i < j < r.remaining().len() ==> (#[trigger] r.remaining()[i]).0 != (#[trigger] r.remaining()[j]).0,
        forall|k: PackageNv| m@.contains_key(k) ==> exists|i: int| 0 <= i < r.remaining().len() && (#[trigger] r.remaining()[i]).0 == k,
{ unimplemented!() }
/// `for (specifier, ranges) in index_map` by value: the entries in insertion order
#[verifier::external_body]
pub fn vx_ranges_into_iter(m: IndexMap<Url, ModulePublicRanges>) -> (r: RangesIter)
    ensures
        r.obeys_prophetic_iter_laws(),
        r.remaining().len() == im_keys(m).len(),
        forall|i: int| 0 <= i < r.remaining().len() ==> (#[trigger] r.remaining()[i]).0 == im_keys(m)[i] && r.remaining()[i].1 == im_vals(m)[i],
{ unimplemented!() }
/// `RESULT.map(f)` (R7 wrapper)
#[verifier::external_body]
pub fn vx_res_map<T, E, U, F: FnOnce(T) -> U>(o: Result<T, E>, f: F) -> (r: Result<U, E>)
    requires o is Ok ==> f.requires((o->Ok_0,)),
    ensures o is Err ==> r is Err && r->Err_0 == o->Err_0, o is Ok ==> r is Ok && f.ensures((o->Ok_0,), r->Ok_0),
{ o.map(f) }
/// `vec.extend(other_vec)` (R7 wrapper): appends the other vector's elements in order
#[verifier::external_body]
pub fn vx_vec_extend<T>(v: &mut Vec<T>, other: Vec<T>)
    ensures final(v)@ == old(v)@ + other@,
{ v.extend(other) }
/// std: a Vec of a non-zero-sized element type never holds more than isize::MAX elements (ASSUMED; used only to
/// show that a capacity hint `a.len() + b.len()` cannot overflow)
pub proof fn axiom_vec_len_bound<T>(v: &Vec<T>)
    ensures v@.len() <= isize::MAX,
{ admit(); }
/// `std::mem::take`: returns the old value, leaves `T::default()` (for a Vec: empty)
pub uninterp spec fn default_of<T>() -> T;
pub assume_specification<T: Default>[ std::mem::take::<T> ](dest: &mut T) -> (r: T)
    ensures r == *old(dest), *final(dest) == default_of::<T>();
pub proof fn axiom_default_vec_empty<T>()
    ensures default_of::<Vec<T>>()@.len() == 0,
{ admit(); }
pub assume_specification<'a>[ ModuleGraph::get ](g: &'a ModuleGraph, s: &Url) -> (m: Option<&'a Module>);
pub assume_specification<'a>[ Module::source ](m: &'a Module) -> (s: Option<&'a std::sync::Arc<str>>);
pub assume_specification[ fast_insecure_hash ](b: &[u8]) -> (h: u64);
/// `serde_json::to_string(&module.module_info).unwrap()` (R7 wrapper; no claim is made about the text)
#[verifier::external_body]
pub fn vx_module_info_json(m: &std::sync::Arc<ModuleInfo>) -> (r: String)
{ unimplemented!() }
pub assume_specification[ FastCheckCacheKey::build ](seed: &'static str, nv: &PackageNv, eps: &std::collections::BTreeSet<Url>) -> (k: FastCheckCacheKey);
} // verus!
