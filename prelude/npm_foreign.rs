// Stand-ins for NpmSpecifierResolver::resolve: the embedder's NpmResolver (a trait object; futures read as their results,
// R16), Vec::drain(..), partition / fold / zip chains (DESIGN.md §3.3).  Nothing here is verified.
impl Clone for NpmLoadError { fn clone(&self) -> Self { unimplemented!() } }
impl From<NpmLoadError> for ModuleLoadError { fn from(e: NpmLoadError) -> Self { ModuleLoadError::Npm(e) } }
impl NpmPackageReqReference { pub fn req(&self) -> &PackageReq { unimplemented!() } }
pub struct PackageReq { _p: u64 }
pub struct PackageReqReferenceParseError { _p: u64 }
impl Clone for PackageReq { fn clone(&self) -> Self { unimplemented!() } }
pub type ItemsByReq = IndexMap<PackageReq, Vec<PendingNpmResolutionItem>>;
impl<K, V> IndexMap<K, V> { pub fn with_capacity(_n: usize) -> Self { unimplemented!() } }
pub type DepGraphError = std::sync::Arc<dyn JsErrorClass>;

verus! {
#[verifier::external_type_specification] #[verifier::external_body] pub struct ExNpPackageReq(PackageReq);
#[verifier::external_type_specification] #[verifier::external_body] pub struct ExNpPackageReqReferenceParseError(PackageReqReferenceParseError);
pub struct NpmResolvePkgReqsResult { pub results: Vec<Result<(), NpmLoadError>>, pub dep_graph_result: Result<(), std::sync::Arc<dyn JsErrorClass>> }
/// src/source/mod.rs `NpmResolver` (documented embedder contract: "MUST return the same amount of resolutions back as
/// version reqs provided or else a panic will occur"): ASSUMED here, which is what discharges the two `assert_eq!`s
pub trait NpmResolver {
    fn resolve_pkg_reqs(&self, package_req: &[PackageReq]) -> (r: NpmResolvePkgReqsResult)
        ensures r.results@.len() == package_req@.len();
}
/// `#[derive(Clone)]` (assumed to return an equal value)
pub assume_specification[ <NpmLoadError as Clone>::clone ](e: &NpmLoadError) -> (c: NpmLoadError) ensures c == *e;
pub assume_specification[ <NpmPackageReqReference as Clone>::clone ](e: &NpmPackageReqReference) -> (c: NpmPackageReqReference) ensures c == *e;
pub assume_specification[ <PackageReq as Clone>::clone ](r: &PackageReq) -> (c: PackageReq) ensures c == *r;
pub uninterp spec fn npm_ref_req(r: NpmPackageReqReference) -> PackageReq;
pub assume_specification<'a>[ NpmPackageReqReference::req ](r: &'a NpmPackageReqReference) -> (q: &'a PackageReq) ensures *q == npm_ref_req(*r);
#[verifier::external_body]
pub fn vx_npm_err_into(e: NpmLoadError) -> (r: ModuleLoadError) ensures r == ModuleLoadError::Npm(e) { unimplemented!() }
/// `vec.drain(..)` consumed by a `for` (R7 wrapper): all items in order; the vector is left empty
#[verifier::external_body]
pub fn vx_drain_all<T>(v: &mut Vec<T>, _all: std::ops::RangeFull) -> (r: Vec<T>)
    ensures r@ == old(v)@, final(v)@.len() == 0,
{ v.drain(..).collect() }
/// `vec.drain(..).partition::<Vec<_>, _>(f)` (R7 chain wrapper): the items for which `f` answered true / false, each in
/// order; every item lands in exactly one of the two
#[verifier::external_body]
pub fn vx_drain_partition<T, F: FnMut(&T) -> bool>(v: &mut Vec<T>, _all: std::ops::RangeFull, f: F) -> (r: (Vec<T>, Vec<T>))
    requires forall|x: &T| f.requires((x,)),
    ensures
        final(v)@.len() == 0,
        forall|i: int| 0 <= i < r.0@.len() ==> old(v)@.contains(#[trigger] r.0@[i]) && f.ensures((&r.0@[i],), true),
        forall|i: int| 0 <= i < r.1@.len() ==> old(v)@.contains(#[trigger] r.1@[i]) && f.ensures((&r.1@[i],), false),
        r.0@.len() + r.1@.len() == old(v)@.len(),
{ v.drain(..).partition::<Vec<_>, _>(f) }
/// the grouping of the static items by requirement (`IndexMap<PackageReq, Vec<item>>`): opaque here
pub assume_specification<K, V>[ IndexMap::<K, V>::with_capacity ](n: usize) -> (r: IndexMap<K, V>);
pub uninterp spec fn group_of(m: ItemsByReq, r: PackageReq) -> Option<Vec<PendingNpmResolutionItem>>;
/// `map.get(&req).unwrap()` (R7 chain wrapper): the group filed under the requirement; proving the call safe means
/// proving that there is one
#[verifier::external_body]
pub fn vx_group_get<'a>(m: &'a ItemsByReq, r: &PackageReq) -> (g: &'a Vec<PendingNpmResolutionItem>)
    requires group_of(*m, *r) is Some,
    ensures *g == group_of(*m, *r).unwrap(),
{ unimplemented!() }
/// `items.into_iter().fold(map, |mut map, item| { map.entry(item.package_ref.req().clone()).or_default().push(item); map })`
/// (R7 chain wrapper in mode dropclosure: the closure is NOT extracted): every item is filed under its own requirement,
/// and every group consists of items of that requirement (ASSUMED)
#[verifier::external_body]
pub fn vx_group_by_req(items: Vec<PendingNpmResolutionItem>, init: ItemsByReq) -> (m: ItemsByReq)
    ensures
        forall|i: int| 0 <= i < items@.len() ==> group_of(m, npm_ref_req((#[trigger] items@[i]).package_ref)) is Some,
        forall|r: PackageReq, j: int| #![trigger group_of(m, r).unwrap()@[j]] group_of(m, r) is Some && 0 <= j < group_of(m, r).unwrap()@.len()
            ==> npm_ref_req(group_of(m, r).unwrap()@[j].package_ref) == r && items@.contains(group_of(m, r).unwrap()@[j]),
{ unimplemented!() }
/// `map.keys().cloned().collect::<Vec<_>>()` (R7 chain wrapper): the requirements that have a group
#[verifier::external_body]
pub fn vx_group_keys(m: &ItemsByReq) -> (r: Vec<PackageReq>)
    ensures forall|i: int| 0 <= i < r@.len() ==> group_of(*m, #[trigger] r@[i]) is Some,
{ unimplemented!() }
/// `a.into_iter().zip(b.into_iter())` consumed by a `for` (R7 chain wrapper): the pairs, position by position
#[verifier::external_body]
pub fn vx_zip_vecs<A, B>(a: Vec<A>, b: std::vec::IntoIter<B>) -> (r: Vec<(A, B)>)
    ensures r@.len() == (if a@.len() <= b.remaining().len() { a@.len() as int } else { b.remaining().len() as int }),
            forall|i: int| 0 <= i < r@.len() ==> (#[trigger] r@[i]).0 == a@[i] && r@[i].1 == b.remaining()[i],
{ a.into_iter().zip(b).collect() }
} // verus!
// ---- NpmSpecifierResolver::fill_graph
pub struct HashIntoIter<K, V> { _k: core::marker::PhantomData<K>, _v: core::marker::PhantomData<V> }
impl<K, V> Iterator for HashIntoIter<K, V> { type Item = (K, V); fn next(&mut self) -> Option<(K, V)> { unimplemented!() } }
verus! {
#[verifier::external_type_specification] #[verifier::external_body] #[verifier::reject_recursive_types(K)] #[verifier::reject_recursive_types(V)]
pub struct ExNpHashIntoIter<K, V>(HashIntoIter<K, V>);
/// `for (k, v) in hash_map` by value (R6 + R7 wrapper): every entry exactly once, in SOME order
#[verifier::external_body]
pub fn vx_hash_into_iter<K, V>(m: std::collections::HashMap<K, V>) -> (r: HashIntoIter<K, V>)
    ensures
        r.obeys_prophetic_iter_laws(),
        forall|i: int| 0 <= i < r.remaining().len() ==> m@.contains_key((#[trigger] r.remaining()[i]).0) && m@[r.remaining()[i].0] == r.remaining()[i].1,
        forall|k: K| #[trigger] m@.contains_key(k) ==> exists|i: int| 0 <= i < r.remaining().len() && (#[trigger] r.remaining()[i]).0 == k,
{ unimplemented!() }
} // verus!
