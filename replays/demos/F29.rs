// C15 / C02: a module that imports the same specifier once with a STATIC
// type-only import (`import type`, `export type`, `/// <reference path>`) and
// once with a dynamic `import()` gets ONE dependency with `is_dynamic: true`.
// A walk that includes types but does not follow dynamic imports therefore
// never follows the static type edge: the target is not visited, and a failure
// behind it is not reported. When dynamic imports are followed the static
// `import type` is reported as "Dynamic import not found".
#![allow(clippy::disallowed_methods)]

use deno_graph::BuildOptions;
use deno_graph::CheckJsOption;
use deno_graph::GraphKind;
use deno_graph::ModuleGraph;
use deno_graph::ModuleSpecifier;
use deno_graph::WalkOptions;
use deno_graph::source::MemoryLoader;

fn u(s: &str) -> ModuleSpecifier {
  ModuleSpecifier::parse(s).unwrap()
}

fn opts(kind: GraphKind, follow_dynamic: bool) -> WalkOptions<'static> {
  WalkOptions {
    check_js: CheckJsOption::True,
    follow_dynamic,
    kind,
    prefer_fast_check_graph: false,
  }
}

async fn build(main: &str, with_a: bool) -> ModuleGraph {
  let mut loader = MemoryLoader::default();
  loader.add_source_with_text("https://x/main.ts", main);
  if with_a {
    loader.add_source_with_text(
      "https://x/a.ts",
      "import './b.ts'; export type A = string;",
    );
    loader.add_source_with_text("https://x/b.ts", "export {}");
  }
  let mut graph = ModuleGraph::new(GraphKind::All);
  graph
    .build(
      vec![u("https://x/main.ts")],
      vec![],
      &loader,
      BuildOptions::default(),
    )
    .await;
  graph
}

const SOURCES: [&str; 4] = [
  "import type { A } from './a.ts';\nconst a = await import('./a.ts');",
  "const a = await import('./a.ts');\nimport type { A } from './a.ts';",
  "export type { A } from './a.ts';\nconst a = await import('./a.ts');",
  "/// <reference path=\"./a.ts\" />\nconst a = await import('./a.ts');",
];

/// control: without the dynamic import everything below holds
#[tokio::test]
async fn control_static_type_import_only() {
  let graph = build("import type { A } from './a.ts';", true).await;
  let roots = [u("https://x/main.ts")];
  let visited = graph
    .walk(roots.iter(), opts(GraphKind::All, false))
    .map(|(s, _)| s.to_string())
    .collect::<Vec<_>>();
  assert!(visited.contains(&"https://x/a.ts".to_string()));
  let graph = build("import type { A } from './a.ts';", false).await;
  assert!(
    graph
      .walk(roots.iter(), opts(GraphKind::All, false))
      .validate()
      .is_err()
  );
}

/// the statically type-imported module (and what it imports) is part of a
/// walk that includes types, whether or not dynamic imports are followed
#[tokio::test]
async fn static_type_edge_is_followed_without_follow_dynamic() {
  for source in SOURCES {
    let graph = build(source, true).await;
    let roots = [u("https://x/main.ts")];
    for kind in [GraphKind::All, GraphKind::TypesOnly] {
      let visited = graph
        .walk(roots.iter(), opts(kind, false))
        .map(|(s, _)| s.to_string())
        .collect::<Vec<_>>();
      assert!(
        visited.contains(&"https://x/a.ts".to_string())
          && visited.contains(&"https://x/b.ts".to_string()),
        "kind={kind:?} follow_dynamic=false: the static type import of ./a.ts was not followed; visited = {visited:?}\nsource:\n{source}"
      );
    }
  }
}

/// a missing module behind the static type import fails a validation that
/// includes types, and is not blamed on a dynamic import
#[tokio::test]
async fn missing_module_behind_static_type_import_is_reported() {
  for source in SOURCES {
    let graph = build(source, false).await;
    let roots = [u("https://x/main.ts")];
    // code validation is rightly unaffected: the only code edge is dynamic
    assert!(graph.valid().is_ok());
    for kind in [GraphKind::All, GraphKind::TypesOnly] {
      let result = graph.walk(roots.iter(), opts(kind, false)).validate();
      assert!(
        result.is_err(),
        "kind={kind:?} follow_dynamic=false: validate() succeeded although the static type import of ./a.ts points at a missing module\nsource:\n{source}"
      );
    }
    let errors = graph
      .walk(roots.iter(), opts(GraphKind::All, true))
      .errors()
      .map(|e| e.to_string())
      .collect::<Vec<_>>();
    assert!(
      errors.iter().any(|e| e.starts_with("Module not found")),
      "follow_dynamic=true: the static type import is only reported as a dynamic import: {errors:?}"
    );
  }
}
