// C02: "remote module importing a literal `file:` URL" must fail validation.
// The check only recognises specifier texts that start with `file://`; the
// equally literal spellings `file:/bar.js`, `file:bar.js` and ` file:///bar.js`
// (all of which the URL parser turns into file:///bar.js, and all of which the
// builder happily hands to the loader) pass validation.
#![allow(clippy::disallowed_methods)]

use deno_graph::BuildOptions;
use deno_graph::CheckJsOption;
use deno_graph::GraphKind;
use deno_graph::ModuleGraph;
use deno_graph::ModuleGraphError;
use deno_graph::ModuleSpecifier;
use deno_graph::ResolutionError;
use deno_graph::WalkOptions;
use deno_graph::source::MemoryLoader;

fn u(s: &str) -> ModuleSpecifier {
  ModuleSpecifier::parse(s).unwrap()
}

async fn local_import_errors(import_text: &str) -> (ModuleGraph, usize) {
  let mut loader = MemoryLoader::default();
  loader.add_source_with_text(
    "https://x/main.ts",
    format!("import '{import_text}';"),
  );
  loader.add_source_with_text("file:///bar.js", "console.log('local');");
  let mut graph = ModuleGraph::new(GraphKind::All);
  graph
    .build(
      vec![u("https://x/main.ts")],
      vec![],
      &loader,
      BuildOptions::default(),
    )
    .await;
  // precondition: the remote module's import was resolved to the local file
  // and the local file was loaded into the graph
  assert!(
    graph.contains(&u("file:///bar.js")),
    "{import_text} did not load file:///bar.js"
  );
  let roots = [u("https://x/main.ts")];
  let count = graph
    .walk(
      roots.iter(),
      WalkOptions {
        check_js: CheckJsOption::True,
        follow_dynamic: false,
        kind: GraphKind::CodeOnly,
        prefer_fast_check_graph: false,
      },
    )
    .errors()
    .filter(|e| {
      matches!(
        e,
        ModuleGraphError::ResolutionError(
          ResolutionError::InvalidLocalImport { .. }
        )
      )
    })
    .count();
  (graph, count)
}

#[tokio::test]
async fn control_two_slashes() {
  for text in ["file:///bar.js", "FILE:///bar.js"] {
    let (graph, count) = local_import_errors(text).await;
    assert_eq!(count, 1);
    assert!(graph.valid().is_err());
  }
}

#[tokio::test]
async fn literal_file_url_with_one_slash() {
  let (graph, count) = local_import_errors("file:/bar.js").await;
  assert_eq!(
    count, 1,
    "remote module importing the literal file: URL `file:/bar.js` is not rejected"
  );
  assert!(graph.valid().is_err());
}

#[tokio::test]
async fn literal_file_url_without_slash() {
  let (graph, count) = local_import_errors("file:bar.js").await;
  assert_eq!(
    count, 1,
    "remote module importing the literal file: URL `file:bar.js` is not rejected"
  );
  assert!(graph.valid().is_err());
}

#[tokio::test]
async fn literal_file_url_with_leading_whitespace() {
  let (graph, count) = local_import_errors(" file:///bar.js").await;
  assert_eq!(
    count, 1,
    "remote module importing the literal file: URL ` file:///bar.js` is not rejected"
  );
  assert!(graph.valid().is_err());
}
