// C15: "a walk from given roots yields each specifier at most once".
// Roots handed to walk() are pushed unconditionally, so a root that occurs
// twice in the iterator (or a root list assembled from several sources) is
// yielded - and its errors are reported - twice.
#![allow(clippy::disallowed_methods)]

use deno_graph::BuildOptions;
use deno_graph::CheckJsOption;
use deno_graph::GraphKind;
use deno_graph::ModuleGraph;
use deno_graph::ModuleSpecifier;
use deno_graph::WalkOptions;
use deno_graph::source::MemoryLoader;

fn u(s: &str) -> ModuleSpecifier {
  ModuleSpecifier::parse(s).unwrap()
}

fn opts() -> WalkOptions<'static> {
  WalkOptions {
    check_js: CheckJsOption::True,
    follow_dynamic: false,
    kind: GraphKind::All,
    prefer_fast_check_graph: false,
  }
}

#[tokio::test]
async fn duplicated_root_is_yielded_once() {
  let mut loader = MemoryLoader::default();
  loader.add_source_with_text("https://x/main.ts", "import './missing.ts';");
  let mut graph = ModuleGraph::new(GraphKind::All);
  graph
    .build(
      vec![u("https://x/main.ts")],
      vec![],
      &loader,
      BuildOptions::default(),
    )
    .await;

  let roots = [u("https://x/main.ts"), u("https://x/main.ts")];
  let visited = graph
    .walk(roots.iter(), opts())
    .map(|(s, _)| s.as_str())
    .collect::<Vec<_>>();
  let mut deduped = visited.clone();
  deduped.sort();
  deduped.dedup();
  assert_eq!(
    visited.len(),
    deduped.len(),
    "the walk yielded a specifier more than once: {visited:?}"
  );
}
