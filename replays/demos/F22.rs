// C14: lookups (resolve / try_get / get / contains) must agree with what the
// walk reaches, and resolve() must be idempotent. They do not when a
// specifier is at the same time a redirect SOURCE and the holder of a module
// slot (redirect cycles; stale lockfile redirects): the walk looks at the slot
// first, resolve() looks at the redirect first.
#![allow(clippy::disallowed_methods)]

use deno_graph::BuildOptions;
use deno_graph::CheckJsOption;
use deno_graph::FillFromLockfileOptions;
use deno_graph::GraphKind;
use deno_graph::ModuleEntryRef;
use deno_graph::ModuleGraph;
use deno_graph::ModuleSpecifier;
use deno_graph::WalkOptions;
use deno_graph::source::MemoryLoader;
use deno_graph::source::Source;
use deno_semver::jsr::JsrDepPackageReq;

fn u(s: &str) -> ModuleSpecifier {
  ModuleSpecifier::parse(s).unwrap()
}

/// What the walk reaches when started at `specifier`: follows the redirect
/// entries and returns the first entry that is not a redirect.
///   Some(Ok(final specifier))  - a module
///   Some(Err(message))         - a module error
///   None                       - nothing
fn walk_outcome(
  graph: &ModuleGraph,
  specifier: &ModuleSpecifier,
) -> Option<Result<String, String>> {
  let roots = [specifier.clone()];
  let mut walk = graph.walk(
    roots.iter(),
    WalkOptions {
      check_js: CheckJsOption::True,
      follow_dynamic: true,
      kind: GraphKind::All,
      prefer_fast_check_graph: false,
    },
  );
  while let Some((_, entry)) = walk.next() {
    match entry {
      ModuleEntryRef::Redirect(_) => continue,
      ModuleEntryRef::Module(m) => return Some(Ok(m.specifier().to_string())),
      ModuleEntryRef::Err(e) => return Some(Err(e.to_string())),
    }
  }
  None
}

fn lookup_outcome(
  graph: &ModuleGraph,
  specifier: &ModuleSpecifier,
) -> Option<Result<String, String>> {
  match graph.try_get(specifier) {
    Ok(Some(m)) => Some(Ok(m.specifier().to_string())),
    Ok(None) => None,
    Err(e) => Some(Err(e.to_string())),
  }
}

fn assert_lookups_agree_with_walk(graph: &ModuleGraph, specifiers: &[&str]) {
  for s in specifiers {
    let s = u(s);
    let walked = walk_outcome(graph, &s);
    assert_eq!(
      lookup_outcome(graph, &s),
      walked,
      "try_get({s}) disagrees with what the walk reaches from {s}"
    );
    assert_eq!(
      graph.contains(&s),
      matches!(walked, Some(Ok(_))),
      "contains({s}) disagrees with the walk"
    );
    assert_eq!(
      graph.get(&s).map(|m| m.specifier().to_string()),
      walked.and_then(|r| r.ok()),
      "get({s}) disagrees with the walk"
    );
    let once = graph.resolve(&s);
    let twice = graph.resolve(once);
    assert_eq!(
      once, twice,
      "resolve() is not idempotent for {s}: resolve = {once}, resolve(resolve) = {twice}"
    );
  }
}

/// main.ts imports a.ts; a.ts -> b.ts -> c.ts -> a.ts (a 3-cycle of
/// redirects served by the loader).
#[tokio::test]
async fn redirect_cycle_of_length_3() {
  let mut loader = MemoryLoader::default();
  loader.add_source_with_text("https://x/main.ts", "import './a.ts';");
  for (from, to) in [("a", "b"), ("b", "c"), ("c", "a")] {
    loader.add_source(
      format!("https://x/{from}.ts"),
      Source::<_, [u8; 0]>::Redirect(format!("https://x/{to}.ts")),
    );
  }
  let mut graph = ModuleGraph::new(GraphKind::All);
  graph
    .build(
      vec![u("https://x/main.ts")],
      vec![],
      &loader,
      BuildOptions::default(),
    )
    .await;
  // the walk from the root reaches a "Too many redirects" error
  assert!(graph.valid().is_err());
  assert_lookups_agree_with_walk(
    &graph,
    &["https://x/a.ts", "https://x/b.ts", "https://x/c.ts"],
  );
}

/// The same with a 2-cycle.
#[tokio::test]
async fn redirect_cycle_of_length_2() {
  let mut loader = MemoryLoader::default();
  loader.add_source_with_text("https://x/main.ts", "import './a.ts';");
  for (from, to) in [("a", "b"), ("b", "a")] {
    loader.add_source(
      format!("https://x/{from}.ts"),
      Source::<_, [u8; 0]>::Redirect(format!("https://x/{to}.ts")),
    );
  }
  let mut graph = ModuleGraph::new(GraphKind::All);
  graph
    .build(
      vec![u("https://x/main.ts")],
      vec![],
      &loader,
      BuildOptions::default(),
    )
    .await;
  assert!(graph.valid().is_err());
  assert_lookups_agree_with_walk(&graph, &["https://x/a.ts", "https://x/b.ts"]);
}

/// No cycle and no error at all: the lockfile remembers a.ts -> b.ts -> c.ts,
/// but the server meanwhile serves b.ts itself. The build loads b.ts as a
/// module, the walk reaches it, validation succeeds - and every lookup of
/// a.ts / b.ts says "not in the graph".
#[tokio::test]
async fn lockfile_seeded_redirect_whose_target_no_longer_redirects() {
  let mut loader = MemoryLoader::default();
  loader.add_source_with_text("https://x/main.ts", "import './a.ts';");
  loader.add_source_with_text("https://x/b.ts", "export const b = 1;");
  loader.add_source_with_text("https://x/c.ts", "export const c = 1;");
  let mut graph = ModuleGraph::new(GraphKind::All);
  let redirects = [
    ("https://x/a.ts", "https://x/b.ts"),
    ("https://x/b.ts", "https://x/c.ts"),
  ];
  graph.fill_from_lockfile(FillFromLockfileOptions {
    redirects: redirects.iter().copied(),
    package_specifiers: Vec::<(&JsrDepPackageReq, &str)>::new().into_iter(),
  });
  graph
    .build(
      vec![u("https://x/main.ts")],
      vec![],
      &loader,
      BuildOptions::default(),
    )
    .await;
  assert!(graph.valid().is_ok());
  // the walk from the root reaches module b.ts through a.ts
  assert_eq!(
    walk_outcome(&graph, &u("https://x/a.ts")),
    Some(Ok("https://x/b.ts".to_string()))
  );
  assert_lookups_agree_with_walk(&graph, &["https://x/a.ts", "https://x/b.ts"]);
  // and the dependency of main.ts can be resolved to the module the walk reaches
  assert_eq!(
    graph
      .resolve_dependency("./a.ts", &u("https://x/main.ts"), false)
      .map(|s| s.as_str()),
    Some("https://x/b.ts")
  );
}
