// C18: a segment whose roots were not roots of the original graph must
// contain precisely what a direct build of those roots contains.
//
// A module that ends with `//# sourceMappingURL=./a.js.map` makes the builder
// load the source map as an external asset module (Builder::visit_module).
// `ModuleGraph::segment` copies what `ModuleGraph::walk` yields, and the walk
// never follows `JsModule::maybe_source_map_dependency`, so the segment loses
// the source map module (for every graph kind).
#![allow(clippy::disallowed_methods)]

use std::collections::BTreeMap;

use deno_ast::ModuleSpecifier;
use deno_graph::BuildOptions;
use deno_graph::GraphKind;
use deno_graph::Module;
use deno_graph::ModuleGraph;
use deno_graph::ast::CapturingModuleAnalyzer;
use deno_graph::source::MemoryLoader;

fn url(s: &str) -> ModuleSpecifier {
  ModuleSpecifier::parse(s).unwrap()
}

async fn build(kind: GraphKind, loader: &MemoryLoader, root: &str) -> ModuleGraph {
  let analyzer = CapturingModuleAnalyzer::default();
  let mut graph = ModuleGraph::new(kind);
  graph
    .build(
      vec![url(root)],
      vec![],
      loader,
      BuildOptions {
        module_analyzer: &analyzer,
        ..Default::default()
      },
    )
    .await;
  graph
}

/// specifier -> module kind or error
fn observe(graph: &ModuleGraph) -> BTreeMap<String, String> {
  graph
    .specifiers()
    .map(|(s, e)| {
      let v = match e {
        Ok(Module::Js(_)) => "js".to_string(),
        Ok(Module::Json(_)) => "json".to_string(),
        Ok(Module::Wasm(_)) => "wasm".to_string(),
        Ok(Module::Npm(_)) => "npm".to_string(),
        Ok(Module::Node(_)) => "node".to_string(),
        Ok(Module::External(_)) => "external".to_string(),
        Err(err) => format!("error: {err}"),
      };
      (s.to_string(), v)
    })
    .collect()
}

#[tokio::test]
async fn segment_keeps_the_source_map_module_of_a_contained_module() {
  let mut loader = MemoryLoader::default();
  loader.add_source_with_text("file:///main.js", "import './a.js';\n");
  loader.add_source_with_text(
    "file:///a.js",
    "import './b.js';\nexport const a = 1;\n//# sourceMappingURL=./a.js.map\n",
  );
  loader.add_source_with_text("file:///b.js", "export const b = 1;\n");
  loader.add_source_with_text("file:///a.js.map", "{}");

  for kind in [GraphKind::All, GraphKind::CodeOnly, GraphKind::TypesOnly] {
    let original = build(kind, &loader, "file:///main.js").await;
    let direct = build(kind, &loader, "file:///a.js").await;
    // the original and the direct build both contain the source map module
    assert!(original.contains(&url("file:///a.js.map")), "{kind:?}");
    assert!(direct.contains(&url("file:///a.js.map")), "{kind:?}");

    let segment = original.segment(&[url("file:///a.js")]);

    // self-contained: what a.js refers to is still in the segment
    let a = segment.get(&url("file:///a.js")).unwrap().js().unwrap();
    let source_map = a
      .maybe_source_map_dependency
      .as_ref()
      .unwrap()
      .dependency
      .maybe_specifier()
      .unwrap();
    assert_eq!(
      segment.try_get(source_map).ok().flatten().is_some(),
      original.try_get(source_map).ok().flatten().is_some(),
      "{kind:?}: the source map dependency of a.js resolves in the original but not in the segment"
    );

    // equals a direct build of its roots
    assert_eq!(observe(&segment), observe(&direct), "{kind:?}");
  }
}
