// ============================== REPORT ==============================
// TITLE: A JSR version manifest whose export value is a `jsr:` specifier of the same export makes the build loop forever
//
// PROPERTY / CLAUSE
// C03: "Whatever the loader and registry do - ... malformed or inconsistent package metadata ... - a
// build finishes without panicking and leaves no entry unfinished." Violated: the build does not finish.
//
// INPUT
//   file:///main.ts                       import 'jsr:@a/b@1'; import './other.ts';
//   https://jsr.io/@a/b/meta.json         { "versions": { "1.0.0": {} } }
//   https://jsr.io/@a/b/1.0.0_meta.json   { "exports": { ".": "jsr:@a/b@1" }, "manifest": {} }
// (Any cycle works: @a/b exporting "jsr:@c/d@1" and @c/d exporting "jsr:@a/b@1", ...)
//
// WHAT THE CODE DOES
// ModuleGraph::build never returns (busy loop; every awaited future is an already resolved memoised
// metadata future). Without the cycle, an export value that is an absolute URL is simply followed:
// "https://evil.example/x.ts", "file:///...", "npm:..", "jsr:@other/pkg" are all loaded as the export
// of the package, without any manifest checksum.
//
// WHAT IT SHOULD DO
// An export value that does not designate a file inside the package is malformed metadata: the `jsr:`
// specifier becomes an error entry (e.g. JsrLoadError::UnknownExport, as for an export value that
// cannot be joined at all - the F8 repair) and file:///other.ts is loaded normally.
//
// ROOT CAUSE
// src/graph.rs:5088-5128 (resolve_pending_jsr_specifiers): `base_url.join(export_value)` with an
// absolute URL as export value yields that URL. The code then records
// `self.graph.redirects.insert(jsr:@a/b@1, jsr:@a/b@1)` and calls `self.load(jsr:@a/b@1)`;
// load_with_redirect_count (src/graph.rs:5673-5697) has no slot for a `jsr:` specifier, so it queues a
// new PendingJsrReqResolutionItem (load_jsr_specifier, src/graph.rs:5939-5965). Back in
// resolve_pending (src/graph.rs:4806-4891) `self.state.jsr.pending_resolutions` is non-empty again,
// resolve_pending_jsr_specifiers runs again with the memoised metadata, and so on forever. Nothing
// checks that the joined export url is inside the package (`version_info.get_subpath(&specifier)`).
//
// MINIMAL FIX
// In resolve_pending_jsr_specifiers accept an export only if the joined url lies in the package:
//     let maybe_export = match version_info.export(&export_name) {
//       Some(export_value) => match base_url.join(export_value) {
//         Ok(specifier) if JsrPackageVersionInfoExt { base_url: base_url.clone(),
//              inner: version_info.clone() }.get_subpath(&specifier).is_some()
//           => Some((export_value, specifier)),
//         _ => None,
//       },
//       None => None,
//     };
// so that everything else falls into the existing UnknownExport error arm.
// ====================================================================

// C03: "Whatever the loader and registry do - ... malformed or inconsistent
// package metadata ... - a build finishes without panicking and leaves no
// entry unfinished."
//
// A JSR version manifest whose export value is not a path inside the package
// but a `jsr:` specifier that resolves to the same export again
// (`"exports": { ".": "jsr:@a/b@1" }`) makes `ModuleGraph::build` loop forever:
// the export value is joined to the package url (which yields the absolute
// `jsr:@a/b@1` url), a redirect `jsr:@a/b@1 -> jsr:@a/b@1` is recorded and the
// specifier is queued as a new pending jsr resolution, which is resolved from
// the already loaded (memoised) metadata, and so on.
#![allow(clippy::disallowed_methods)]

use std::time::Duration;

use deno_graph::BuildOptions;
use deno_graph::GraphKind;
use deno_graph::ModuleGraph;
use deno_graph::ModuleSpecifier;
use deno_graph::ast::CapturingModuleAnalyzer;
use deno_graph::packages::JsrPackageInfo;
use deno_graph::packages::JsrPackageInfoVersion;
use deno_graph::packages::JsrPackageVersionInfo;
use deno_graph::source::MemoryLoader;

fn url(s: &str) -> ModuleSpecifier {
  ModuleSpecifier::parse(s).unwrap()
}

#[test]
fn jsr_export_value_that_is_a_jsr_specifier_of_itself_terminates() {
  let (tx, rx) = std::sync::mpsc::channel();
  std::thread::spawn(move || {
    let rt = tokio::runtime::Builder::new_current_thread()
      .enable_all()
      .build()
      .unwrap();
    rt.block_on(async move {
      let mut loader = MemoryLoader::default();
      loader.add_source_with_text(
        "file:///main.ts",
        "import 'jsr:@a/b@1';\nimport './other.ts';",
      );
      loader.add_source_with_text("file:///other.ts", "export {};");
      loader.add_jsr_package_info(
        "@a/b",
        &JsrPackageInfo {
          versions: vec![(
            deno_semver::Version::parse_standard("1.0.0").unwrap(),
            JsrPackageInfoVersion::default(),
          )]
          .into_iter()
          .collect(),
          latest: None,
        },
      );
      // malformed metadata: the export points back at the package itself
      loader.add_jsr_version_info(
        "@a/b",
        "1.0.0",
        &JsrPackageVersionInfo {
          exports: serde_json::json!({ ".": "jsr:@a/b@1" }),
          ..Default::default()
        },
      );

      let mut graph = ModuleGraph::new(GraphKind::All);
      let analyzer = CapturingModuleAnalyzer::default();
      graph
        .build(
          vec![url("file:///main.ts")],
          vec![],
          &loader,
          BuildOptions {
            module_analyzer: &analyzer,
            ..Default::default()
          },
        )
        .await;
      let errors = graph
        .module_errors()
        .map(|e| e.specifier().to_string())
        .collect::<Vec<_>>();
      let other_loaded = graph.get(&url("file:///other.ts")).is_some();
      let _ = tx.send((errors, other_loaded));
    });
  });
  let result = rx.recv_timeout(Duration::from_secs(10));
  let (errors, other_loaded) = result
    .expect("C03 violated: ModuleGraph::build did not terminate");
  // the failure is an error entry of the jsr specifier, the unrelated module
  // is loaded
  assert_eq!(errors, vec!["jsr:@a/b@1".to_string()]);
  assert!(other_loaded);
}
