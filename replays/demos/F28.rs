// C20: the stored source text of a module is the decoding of the loaded bytes
// under the charset given by the content-type header.
//
// The charset is taken from the header with
// `.split(';').map(str::trim).find_map(|s| s.strip_prefix("charset="))`,
// which is neither aware of quoted parameter values
// (`charset="utf-8"` is equivalent to `charset=utf-8`, RFC 9110 section 5.6.6)
// nor of parameter names being case-insensitive (`Charset=`, RFC 9110
// section 8.3.1).
//  - quoted value: the label `"utf-8"` (with the quotes) is unknown to
//    encoding_rs, so a perfectly fine UTF-8 module becomes a
//    `Unsupported charset: "utf-8"` decode error;
//  - other case of the name: the charset is ignored and the UTF-16 bytes are
//    decoded as UTF-8, the stored text is garbage.
#![allow(clippy::disallowed_methods)]

use deno_ast::ModuleSpecifier;
use deno_graph::BuildOptions;
use deno_graph::GraphKind;
use deno_graph::ModuleGraph;
use deno_graph::ast::CapturingModuleAnalyzer;
use deno_graph::source::MemoryLoader;
use deno_graph::source::Source;

const SPECIFIER: &str = "https://example.com/data.json";
const TEXT: &str = "{\"greeting\":\"h\u{e9}llo\"}";

async fn build_with(content_type: &str, bytes: Vec<u8>) -> ModuleGraph {
  let mut loader = MemoryLoader::default();
  loader.add_source(
    SPECIFIER,
    Source::Module {
      specifier: SPECIFIER,
      maybe_headers: Some(vec![("content-type", content_type)]),
      content: bytes,
    },
  );
  let analyzer = CapturingModuleAnalyzer::default();
  let mut graph = ModuleGraph::new(GraphKind::All);
  graph
    .build(
      vec![ModuleSpecifier::parse(SPECIFIER).unwrap()],
      vec![],
      &loader,
      BuildOptions {
        module_analyzer: &analyzer,
        ..Default::default()
      },
    )
    .await;
  graph
}

fn stored_text(graph: &ModuleGraph) -> Result<String, String> {
  match graph.try_get(&ModuleSpecifier::parse(SPECIFIER).unwrap()) {
    Ok(Some(module)) => Ok(module.source().unwrap().to_string()),
    Ok(None) => Err("not in the graph".to_string()),
    Err(err) => Err(err.to_string()),
  }
}

fn utf16le(text: &str) -> Vec<u8> {
  text.encode_utf16().flat_map(|u| u.to_le_bytes()).collect()
}

#[tokio::test]
async fn baseline_unquoted_lowercase_charset() {
  // passes: shows the inputs below are otherwise handled correctly
  let graph =
    build_with("application/json; charset=utf-8", TEXT.as_bytes().to_vec())
      .await;
  assert_eq!(stored_text(&graph), Ok(TEXT.to_string()));
  let graph =
    build_with("application/json; charset=utf-16le", utf16le(TEXT)).await;
  assert_eq!(stored_text(&graph), Ok(TEXT.to_string()));
}

#[tokio::test]
async fn quoted_charset_utf8() {
  let graph = build_with(
    "application/json; charset=\"utf-8\"",
    TEXT.as_bytes().to_vec(),
  )
  .await;
  // FAILS: Err("Unsupported charset: \"utf-8\"")
  assert_eq!(stored_text(&graph), Ok(TEXT.to_string()));
}

#[tokio::test]
async fn quoted_charset_utf16le() {
  let graph =
    build_with("application/json; charset=\"utf-16le\"", utf16le(TEXT)).await;
  // FAILS: Err("Unsupported charset: \"utf-16le\"")
  assert_eq!(stored_text(&graph), Ok(TEXT.to_string()));
}

#[tokio::test]
async fn charset_parameter_name_in_another_case() {
  let graph =
    build_with("application/json; Charset=utf-16le", utf16le(TEXT)).await;
  // FAILS: the module is there, but its text is the UTF-16 bytes read as
  // UTF-8 ("{\0\"\0g\0r\0e\0e\0t\0...")
  assert_eq!(stored_text(&graph), Ok(TEXT.to_string()));
}
