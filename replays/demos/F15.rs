// ============================== REPORT ==============================
// TITLE: The cache-busting restart keeps `in_dynamic_branch = true`: an unresolvable dynamic `jsr:` import turns the whole graph into a "dynamic" one
//
// PROPERTY / CLAUSE
// C03: "Each failure becomes an error entry for the affected specifier carrying its referrer, while
// every module not depending on the failure is loaded exactly as it would be without it."
//
// INPUT
//   file:///main.ts    import './data.json';          // static JSON import WITHOUT attribute: an error
//                      import './s.ts';
//                      await import('jsr:@a/b@2');    // only 1.0.0 exists -> cannot be resolved
//   file:///data.json  {}
//   file:///s.ts       export {};
//   https://jsr.io/@a/b/meta.json  versions: 1.0.0
// Reference world: the same with `jsr:@a/b@1` (resolves). First build of an empty graph
// (FillPassMode::AllowRestart), default options.
//
// WHAT THE CODE DOES
// Reference world: loads main.ts, data.json, s.ts with in_dynamic_branch: false; data.json is the error
// entry "Expected a JavaScript or TypeScript module, but identified a Json module ...".
// Failing world: the requirement fails to resolve -> restart with cache busting. In the second pass
//   load file:///main.ts   in_dynamic_branch: true
//   load file:///data.json in_dynamic_branch: true
//   load file:///s.ts      in_dynamic_branch: true
// and file:///data.json is admitted as a JSON module ("kind": "asserted"): its error entry is gone.
// (Also: statically analysable dynamic imports are visited inline, and all npm requirements of the pass
// are treated as dynamic items by NpmSpecifierResolver::resolve, i.e. resolved one by one and the batch
// resolve_pkg_reqs call is skipped.)
//
// WHAT IT SHOULD DO
// The static part of the graph does not depend on the failing dynamic import: it must be loaded with
// in_dynamic_branch: false and data.json must stay the same error entry; only `jsr:@a/b@2` becomes an
// (additional) error entry.
//
// ROOT CAUSE
// - src/graph.rs:5180-5181 resolve_dynamic_branches sets `self.in_dynamic_branch = true` for the rest
//   of the builder's life.
// - The `jsr:` requirement of the dynamic import is resolved after that
//   (resolve_pending_jsr_specifiers, src/graph.rs:5004-5011 `return true; // restart`).
// - src/graph.rs:5370-5386 Builder::restart resets the graph, the pending state and fill_pass_mode, but
//   neither `self.in_dynamic_branch` (should be `self.was_dynamic_root`) nor `self.resolved_roots`.
//   build() then loads the roots with `in_dynamic_branch: self.in_dynamic_branch` (src/graph.rs:4759).
// - src/graph.rs:3288-3294: JSON needs no attribute when `is_dynamic_branch` -> the static error is lost.
//
// MINIMAL FIX
// In Builder::restart add
//     self.in_dynamic_branch = self.was_dynamic_root;
//     self.resolved_roots.clear();
// ====================================================================

// C03: "Each failure becomes an error entry for the affected specifier ...,
// while every module not depending on the failure is loaded exactly as it
// would be without it."
//
// World: main.ts statically imports ./data.json (without an import attribute,
// which is an error for a static import) and ./s.ts, and dynamically imports a
// `jsr:` requirement.
//   * world OK : `jsr:@a/b@1` resolves (only 1.0.0 exists).
//   * world BAD: `jsr:@a/b@2` cannot be resolved ("npm/jsr resolution failure").
// In world BAD the version resolution fails while the builder is in its
// dynamic phase (`resolve_dynamic_branches` has set `in_dynamic_branch = true`),
// the builder restarts with cache busting (`Builder::restart`) but never resets
// `in_dynamic_branch`. The whole second pass therefore runs as if everything
// were inside a dynamic import:
//   * `Loader::load` is called with `in_dynamic_branch: true` for the root and
//     all statically imported modules (embedders use this flag for permission
//     checks),
//   * the invalid static JSON import is silently accepted (JSON modules need no
//     attribute in a dynamic branch), so the error entry of ./data.json that
//     exists in world OK disappears in world BAD.
#![allow(clippy::disallowed_methods)]

use std::cell::RefCell;

use deno_graph::BuildOptions;
use deno_graph::GraphKind;
use deno_graph::ModuleGraph;
use deno_graph::ModuleSpecifier;
use deno_graph::ast::CapturingModuleAnalyzer;
use deno_graph::packages::JsrPackageInfo;
use deno_graph::packages::JsrPackageInfoVersion;
use deno_graph::packages::JsrPackageVersionInfo;
use deno_graph::source::LoadFuture;
use deno_graph::source::LoadOptions;
use deno_graph::source::Loader;
use deno_graph::source::MemoryLoader;

fn url(s: &str) -> ModuleSpecifier {
  ModuleSpecifier::parse(s).unwrap()
}

struct RecordingLoader {
  inner: MemoryLoader,
  calls: RefCell<Vec<(String, LoadOptions)>>,
}

impl Loader for RecordingLoader {
  fn load(
    &self,
    specifier: &ModuleSpecifier,
    options: LoadOptions,
  ) -> LoadFuture {
    self
      .calls
      .borrow_mut()
      .push((specifier.to_string(), options.clone()));
    self.inner.load(specifier, options)
  }
}

struct Observed {
  /// (specifier, in_dynamic_branch) of every load of a `file:` module
  file_loads: Vec<(String, bool)>,
  /// error entry of file:///data.json, if any
  data_json_error: Option<String>,
  /// whether file:///data.json is a module of the graph
  data_json_is_module: bool,
}

async fn build(jsr_req: &str) -> Observed {
  let mut loader = MemoryLoader::default();
  loader.add_source_with_text(
    "file:///main.ts",
    format!(
      "import './data.json';\nimport './s.ts';\nawait import('jsr:@a/b@{jsr_req}');"
    ),
  );
  loader.add_source_with_text("file:///data.json", "{}");
  loader.add_source_with_text("file:///s.ts", "export {};");
  loader.add_jsr_package_info(
    "@a/b",
    &JsrPackageInfo {
      versions: vec![(
        deno_semver::Version::parse_standard("1.0.0").unwrap(),
        JsrPackageInfoVersion::default(),
      )]
      .into_iter()
      .collect(),
      latest: None,
    },
  );
  loader.add_jsr_version_info(
    "@a/b",
    "1.0.0",
    &JsrPackageVersionInfo {
      exports: serde_json::json!({ ".": "./mod.ts" }),
      ..Default::default()
    },
  );
  loader.add_source_with_text("https://jsr.io/@a/b/1.0.0/mod.ts", "export {};");
  let loader = RecordingLoader {
    inner: loader,
    calls: Default::default(),
  };

  let mut graph = ModuleGraph::new(GraphKind::All);
  let analyzer = CapturingModuleAnalyzer::default();
  graph
    .build(
      vec![url("file:///main.ts")],
      vec![],
      &loader,
      BuildOptions {
        module_analyzer: &analyzer,
        ..Default::default()
      },
    )
    .await;

  let data_json = url("file:///data.json");
  Observed {
    file_loads: loader
      .calls
      .borrow()
      .iter()
      .filter(|(s, _)| s.starts_with("file:"))
      .map(|(s, o)| (s.clone(), o.in_dynamic_branch))
      .collect(),
    data_json_error: graph
      .module_errors()
      .find(|e| *e.specifier() == data_json)
      .map(|e| e.to_string()),
    data_json_is_module: graph.get(&data_json).is_some(),
  }
}

#[tokio::test]
async fn failing_dynamic_jsr_import_does_not_change_the_static_modules() {
  let ok = build("1").await;
  let bad = build("2").await;
  println!("OK  loads: {:?}\n    data.json error: {:?}", ok.file_loads, ok.data_json_error);
  println!("BAD loads: {:?}\n    data.json error: {:?}", bad.file_loads, bad.data_json_error);

  // sanity of the reference world: static modules are loaded as static
  // modules and the static JSON import without attribute is an error
  assert!(ok.file_loads.iter().all(|(_, dynamic)| !dynamic));
  assert!(ok.data_json_error.is_some());
  assert!(!ok.data_json_is_module);

  // the statically imported modules do not depend on the failing dynamic
  // `jsr:` import: every load of them must be a static load ...
  for (specifier, in_dynamic_branch) in &bad.file_loads {
    assert!(
      !in_dynamic_branch,
      "{specifier} is only reachable statically but was loaded with in_dynamic_branch: true"
    );
  }
  // ... and ./data.json must be the same error entry as without the failure
  assert_eq!(bad.data_json_error, ok.data_json_error);
  assert!(!bad.data_json_is_module);
}
