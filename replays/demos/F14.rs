// ============================== REPORT ==============================
// TITLE: A redirect of a URL to itself leaves a `Pending` slot behind, and can make the build spin forever
//
// PROPERTY / CLAUSE
// C03 "Builds terminate with every reachable specifier settled under any faults":
// "Whatever the loader and registry do - errors, missing modules, redirect chains and loops ... - a
// build finishes without panicking and leaves no entry unfinished. Each failure becomes an error entry
// for the affected specifier carrying its referrer ... Serialising the graph never reports an internal
// error."  Violated: "no entry unfinished", "never reports an internal error" and "builds terminate".
//
// INPUT
// Loader behaviour: the request for https://example.com/a.ts is answered with
// LoadResponse::Redirect { specifier: "https://example.com/a.ts" } (redirect loop of length one, e.g. a
// server that 302s to the same URL). Same for any chain that ends in a self redirect (X -> other,
// other -> other; also found by fault injection).
//  Variant 1:  file:///main.ts   import 'https://example.com/a.ts';
//  Variant 2 (unstable_bytes_imports: true):
//              file:///main.ts   import b from 'https://example.com/a.ts' with { type: 'bytes' };
//                                import './m1.ts';
//              file:///m1.ts     import 'https://example.com/a.ts';
//
// WHAT THE CODE DOES
// Variant 1: build returns, but module_slots["https://example.com/a.ts"] is still ModuleSlot::Pending.
// serde_json::to_value(&graph) contains
//   { "specifier": "https://example.com/a.ts",
//     "error": "[INTERNAL ERROR] A pending module load never completed." }
// graph.module_errors() is empty and graph.valid() returns Ok(()) although main.ts imports a module
// that was never loaded.
// Variant 2: ModuleGraph::build never returns; it busy-loops without any await that could yield (so
// not even tokio::time::timeout can interrupt it).
//
// WHAT IT SHOULD DO
// Terminate with https://example.com/a.ts settled as an error entry (e.g.
// ModuleLoadError::TooManyRedirects) whose referrer is the import in main.ts.
//
// ROOT CAUSE
// - src/graph.rs:6207-6258 handle_redirect (in try_load) only bounds redirects through
//   `redirect_count >= loader.max_redirects()`; it returns PendingInfoResponse::Redirect also when
//   `specifier == load_specifier`.
// - src/graph.rs:4832 check_specifier(&requested, response.specifier()) does nothing because both are
//   equal, so the pending slot of the requested specifier is NOT removed (for a real redirect
//   add_redirect, src/graph.rs:5519-5537, drops it).
// - src/graph.rs:6603-6624 visit(Redirect) calls load_with_redirect_count(count, A), and
//   src/graph.rs:5604-5640 finds the (still Pending) slot of A, concludes the specifier is already
//   taken care of and returns. Nothing is in flight for A any more: the slot stays Pending forever and
//   the redirect counter never gets the chance to reach the limit.
// - Variant 2: the first import was an asset load, so the slot is Pending { is_asset: true }. The
//   second (non asset) import of A is put into self.state.deferred (src/graph.rs:5608-5627). In
//   resolve_pending (src/graph.rs:4862-4878) deferred items are re-issued with self.load(..) once
//   `pending` is empty; load sees the slot is still a pending asset load and defers again, so
//   `while !(.. && self.state.deferred.is_empty())` never ends.
//
// MINIMAL FIX
// Treat a redirect to the requested URL as an endless redirect loop in handle_redirect:
//     } else if redirect_count >= loader.max_redirects() || specifier == load_specifier {
//       Err(ModuleErrorKind::Load { specifier: load_specifier.clone(),
//             maybe_referrer: maybe_range.cloned(),
//             err: ModuleLoadError::TooManyRedirects }.into_box())
//     }
// (Alternatively remove a Pending slot of the target in visit(Redirect) before re-loading it so that
// the counter runs up to max_redirects().) As defence in depth, the `deferred` loop of resolve_pending
// should turn a deferred item whose slot is still Pending while nothing is in flight into an error
// instead of deferring it again.
// ====================================================================

// C03: "a build finishes without panicking and leaves no entry unfinished ...
// Serialising the graph never reports an internal error" -- for all loader
// behaviours including "redirect chains and loops".
//
// A loader that answers a request for URL `A` with `Redirect { specifier: A }`
// (a redirect loop of length one, e.g. a server that 302s to itself):
//   * test 1: the slot of `A` stays `ModuleSlot::Pending` after the build,
//     the serialised graph contains "[INTERNAL ERROR] A pending module load
//     never completed." and `graph.valid()` is `Ok(())`;
//   * test 2: when `A` is imported once as an asset (`with { type: "bytes" }`)
//     and once as a regular module, `ModuleGraph::build` never returns (it
//     spins in the `deferred` loop of `resolve_pending` without awaiting).
#![allow(clippy::disallowed_methods)]

use std::time::Duration;

use deno_graph::BuildOptions;
use deno_graph::GraphKind;
use deno_graph::ModuleGraph;
use deno_graph::ModuleSpecifier;
use deno_graph::ast::CapturingModuleAnalyzer;
use deno_graph::source::MemoryLoader;
use deno_graph::source::Source;

fn url(s: &str) -> ModuleSpecifier {
  ModuleSpecifier::parse(s).unwrap()
}

const A: &str = "https://example.com/a.ts";

#[tokio::test]
async fn self_redirect_must_be_settled_as_an_error() {
  let mut loader = MemoryLoader::default();
  loader.add_source_with_text("file:///main.ts", "import 'https://example.com/a.ts';");
  // the loader redirects `A` to `A`
  loader.add_source(A, Source::<_, [u8; 0]>::Redirect(A.to_string()));

  let mut graph = ModuleGraph::new(GraphKind::All);
  let analyzer = CapturingModuleAnalyzer::default();
  graph
    .build(
      vec![url("file:///main.ts")],
      vec![],
      &loader,
      BuildOptions {
        module_analyzer: &analyzer,
        ..Default::default()
      },
    )
    .await;

  let json = serde_json::to_string_pretty(&graph).unwrap();
  println!("{json}");
  println!("graph.valid() = {:?}", graph.valid());

  // C03: serialising never reports an internal error / no Pending survives
  assert!(
    !json.contains("INTERNAL ERROR"),
    "a pending module slot survived the build"
  );
  // C03: the failure becomes an error entry for the affected specifier
  // carrying its referrer
  let err = graph
    .module_errors()
    .find(|e| e.specifier().as_str() == A)
    .expect("the redirect loop must be an error entry of the graph");
  assert_eq!(
    err.maybe_referrer().map(|r| r.specifier.as_str()),
    Some("file:///main.ts")
  );
  assert!(graph.valid().is_err());
}

#[test]
fn self_redirect_of_an_asset_that_is_also_a_module_import_terminates() {
  let (tx, rx) = std::sync::mpsc::channel();
  std::thread::spawn(move || {
    let rt = tokio::runtime::Builder::new_current_thread()
      .enable_all()
      .build()
      .unwrap();
    rt.block_on(async move {
      let mut loader = MemoryLoader::default();
      loader.add_source_with_text(
        "file:///main.ts",
        "import b from 'https://example.com/a.ts' with { type: 'bytes' };\n\
         import './m1.ts';",
      );
      loader.add_source_with_text("file:///m1.ts", "import 'https://example.com/a.ts';");
      loader.add_source(A, Source::<_, [u8; 0]>::Redirect(A.to_string()));

      let mut graph = ModuleGraph::new(GraphKind::All);
      let analyzer = CapturingModuleAnalyzer::default();
      graph
        .build(
          vec![url("file:///main.ts")],
          vec![],
          &loader,
          BuildOptions {
            module_analyzer: &analyzer,
            unstable_bytes_imports: true,
            ..Default::default()
          },
        )
        .await;
      let _ = tx.send(serde_json::to_string(&graph).unwrap());
    });
  });
  // the whole world is four in-memory files; 10s is several orders of
  // magnitude more than needed
  let result = rx.recv_timeout(Duration::from_secs(10));
  assert!(
    result.is_ok(),
    "C03 violated: ModuleGraph::build did not terminate"
  );
  assert!(!result.unwrap().contains("INTERNAL ERROR"));
}
