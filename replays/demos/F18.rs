// ============================== REPORT ==============================
// TITLE: A `LoadResponse::Module` whose final specifier crosses the registry boundary panics the build (and bypasses the in-package redirect rejection)
//
// PROPERTY / CLAUSE
// C03: "Whatever the loader and registry do - ... redirect chains ... - a build finishes without
// panicking."
// C05: "... a checksummed URL that redirects is rejected" (mechanism "handle_redirect rejects redirects
// of checksummed or in-package URLs").
//
// INPUT
// LoadResponse::Module { specifier, .. } is documented (src/source/mod.rs:70-73, 97-98) to carry the
// FINAL specifier which "can differ from the requested specifier (e.g. if a redirect was encountered
// when loading)". MemoryLoader, and every loader that follows HTTP redirects by itself (fetch() based
// loaders of the JS API), answer like that.
//  Test 1: file:///main.ts imports https://example.com/a.ts; the loader answers that request with
//          Module { specifier: "https://jsr.io/@scope/pkg/1.0.0/mod.ts", content: "import 'jsr:@x/y@1';" }
//          (a vanity URL that redirects into the registry).
//  Test 2: file:///main.ts imports jsr:@scope/pkg@1 (export ./mod.ts, manifest with the right checksum);
//          the request for https://jsr.io/@scope/pkg/1.0.0/mod.ts is answered with
//          Module { specifier: "https://evil.example.com/mod.ts", content: "export {};" }.
//
// WHAT THE CODE DOES
//  Test 1: debug build: panic `assertion left == right failed: https://jsr.io/@scope/pkg/1.0.0/mod.ts`
//          at src/graph.rs:6543 (debug_assert_eq! in Builder::visit).
//          Without debug assertions (verified with
//          --config 'profile.dev.package.deno_graph.debug-assertions=false'): panic
//          `called Option::unwrap() on a None value` at src/packages.rs:269
//          (PackageSpecifiers::add_dependency): mark_jsr_dep finds that the referrer url is inside
//          package @scope/pkg@1.0.0, but that package was never `ensure_package`d because the module did
//          not come through the registry paths.
//  Test 2: debug build: the same debug_assert_eq! panics (`https://evil.example.com/mod.ts`).
//          Without debug assertions: no error; the module from evil.example.com is admitted as the
//          package's export, a redirect jsr.io -> evil.example.com is recorded, whereas the same
//          situation expressed as LoadResponse::Redirect is rejected with
//          JsrLoadError::RedirectInPackage. (handle_jsr_registry_pending_content_loads,
//          src/graph.rs:5221-5226 / 5295-5309, does treat `Module { specifier != requested }` as a
//          redirect - try_load and the cache probe of load_jsr_subpath do not.)
//  Related (not asserted): with such a response the lockfile checksum of the final specifier is never
//  presented/verified: load(A) is issued with A's checksum (None), the answer is resource B whose
//  lockfile entry exists, `!locker.has_remote_checksum(B)` only prevents overwriting.
//
// WHAT IT SHOULD DO
// Not panic. A module response whose final specifier differs from the requested one must go through the
// same decisions as a Redirect response: rejected when the request was for an in-package url (or had a
// checksum), and re-loaded through the registry path (version manifest, ensure_package, manifest
// checksum) when the final specifier is a registry url.
//
// ROOT CAUSE
// src/graph.rs:6342-6365 (try_load, `LoadResponse::Module` arm), 6388-6411 (retry arm) and
// src/graph.rs:5864-5893 (cache probe in load_jsr_subpath) call handle_success / parse with
// `specifier` taken from the response and never compare it with load_specifier; only
// `LoadResponse::Redirect` reaches handle_redirect (src/graph.rs:6207-6258). resolve_pending
// (src/graph.rs:4832) then merely records the redirect. The invariant asserted at src/graph.rs:6543
// ("registry url <=> version info present") and relied upon by mark_jsr_dep/mark_npm_dep ->
// PackageSpecifiers::add_dependency (src/packages.rs:261-272, `.unwrap()`) does not hold.
//
// MINIMAL FIX
// In the three `LoadResponse::Module` arms: if `specifier != load_specifier` and
// (`maybe_version_info.is_some()` or `maybe_checksum.is_some()` or
// `jsr_url_provider.package_url_to_nv(&specifier).is_some()`), do not use the content but
// `return handle_redirect(specifier, maybe_attribute_type, maybe_checksum)` - it yields
// RedirectInPackage / HttpsChecksumIntegrity for in-package / checksummed requests and otherwise a
// PendingInfoResponse::Redirect that is re-loaded through load_with_redirect_count (registry path).
// Independently, make add_dependency tolerant: `if let Some(p) = self.packages.get_mut(nv) {..}`.
// ====================================================================

// C03: "Whatever the loader and registry do - ... redirect chains ... - a build
// finishes without panicking".
// C05: "a checksummed URL that redirects is rejected" (mechanism: "handle_redirect
// rejects redirects of checksummed or in-package URLs").
//
// `LoadResponse::Module { specifier, .. }` is documented to carry the *final*
// specifier, which "can differ from the requested specifier (e.g. if a redirect
// was encountered when loading)"; `MemoryLoader` and every loader that follows
// HTTP redirects itself answer like that. `try_load` only routes
// `LoadResponse::Redirect` through `handle_redirect`; a `Module` response with
// a different final specifier is taken as is. When that final specifier
// crosses the registry boundary the build panics:
//   * test 1: `https://example.com/a.ts` is answered with a module whose final
//     specifier is `https://jsr.io/@scope/pkg/1.0.0/mod.ts` and that imports a
//     `jsr:` specifier. Debug build: `debug_assert_eq!` in `Builder::visit`
//     (src/graph.rs:6543). Without debug assertions: `Option::unwrap()` on
//     `None` in `PackageSpecifiers::add_dependency` (src/packages.rs:269),
//     because the package of the referrer was never `ensure_package`d.
//   * test 2: a file of a registry package (loaded with the manifest checksum)
//     is answered with a module whose final specifier is outside the registry.
//     Debug build: the same `debug_assert_eq!` panics. Without debug
//     assertions the redirected in-package url is admitted as a module instead
//     of being rejected with `JsrLoadError::RedirectInPackage`.
#![allow(clippy::disallowed_methods)]

use std::collections::HashMap;

use deno_graph::BuildOptions;
use deno_graph::GraphKind;
use deno_graph::ModuleGraph;
use deno_graph::ModuleSpecifier;
use deno_graph::ast::CapturingModuleAnalyzer;
use deno_graph::packages::JsrPackageInfo;
use deno_graph::packages::JsrPackageInfoVersion;
use deno_graph::packages::JsrPackageVersionInfo;
use deno_graph::packages::JsrPackageVersionManifestEntry;
use deno_graph::source::LoaderChecksum;
use deno_graph::source::MemoryLoader;
use deno_graph::source::Source;

fn url(s: &str) -> ModuleSpecifier {
  ModuleSpecifier::parse(s).unwrap()
}

/// Builds the graph of `file:///main.ts` on its own thread so that a panic of
/// the build is reported as such; returns (specifier, error text) of every
/// error entry and the specifiers of all loaded modules.
fn build(
  make_loader: impl FnOnce() -> MemoryLoader + Send + 'static,
) -> (Vec<(String, String)>, Vec<String>) {
  let handle = std::thread::spawn(move || {
    let rt = tokio::runtime::Builder::new_current_thread()
      .enable_all()
      .build()
      .unwrap();
    rt.block_on(async move {
      let loader = make_loader();
      let mut graph = ModuleGraph::new(GraphKind::All);
      let analyzer = CapturingModuleAnalyzer::default();
      graph
        .build(
          vec![url("file:///main.ts")],
          vec![],
          &loader,
          BuildOptions {
            module_analyzer: &analyzer,
            ..Default::default()
          },
        )
        .await;
      let json = serde_json::to_string(&graph).unwrap();
      assert!(!json.contains("INTERNAL ERROR"));
      (
        graph
          .module_errors()
          .map(|e| (e.specifier().to_string(), e.to_string()))
          .collect::<Vec<_>>(),
        graph
          .modules()
          .map(|m| m.specifier().to_string())
          .collect::<Vec<_>>(),
      )
    })
  });
  match handle.join() {
    Ok(r) => r,
    Err(e) => panic!(
      "C03 violated: ModuleGraph::build panicked: {}",
      e.downcast_ref::<String>()
        .cloned()
        .or_else(|| e.downcast_ref::<&str>().map(|s| s.to_string()))
        .unwrap_or_default()
    ),
  }
}

fn add_pkg(loader: &mut MemoryLoader, name: &str, files: &[(&str, &str)]) {
  loader.add_jsr_package_info(
    name,
    &JsrPackageInfo {
      versions: vec![(
        deno_semver::Version::parse_standard("1.0.0").unwrap(),
        JsrPackageInfoVersion::default(),
      )]
      .into_iter()
      .collect(),
      latest: None,
    },
  );
  let manifest: HashMap<String, JsrPackageVersionManifestEntry> = files
    .iter()
    .map(|(path, content)| {
      (
        path.to_string(),
        JsrPackageVersionManifestEntry {
          checksum: format!(
            "sha256-{}",
            LoaderChecksum::r#gen(content.as_bytes())
          ),
        },
      )
    })
    .collect();
  loader.add_jsr_version_info(
    name,
    "1.0.0",
    &JsrPackageVersionInfo {
      exports: serde_json::json!({ ".": "./mod.ts" }),
      manifest,
      ..Default::default()
    },
  );
}

#[test]
fn module_response_whose_final_specifier_is_in_the_registry() {
  let (errors, modules) = build(|| {
    let mut loader = MemoryLoader::default();
    loader.add_source_with_text(
      "file:///main.ts",
      "import 'https://example.com/a.ts';\nimport './other.ts';",
    );
    loader.add_source_with_text("file:///other.ts", "export {};");
    add_pkg(
      &mut loader,
      "@scope/pkg",
      &[("/mod.ts", "import 'jsr:@x/y@1';")],
    );
    add_pkg(&mut loader, "@x/y", &[("/mod.ts", "export {};")]);
    loader.add_source_with_text(
      "https://jsr.io/@x/y/1.0.0/mod.ts",
      "export {};",
    );
    // the loader followed a redirect from example.com into the registry
    loader.add_source(
      "https://example.com/a.ts",
      Source::Module {
        specifier: "https://jsr.io/@scope/pkg/1.0.0/mod.ts".to_string(),
        maybe_headers: None,
        content: "import 'jsr:@x/y@1';".to_string(),
      },
    );
    loader
  });
  println!("errors: {errors:#?}\nmodules: {modules:#?}");
  // whatever the graph decides to do with such a response (follow it like a
  // `Redirect` response or reject it), the module that does not depend on it
  // is loaded
  assert!(modules.contains(&"file:///other.ts".to_string()));
}

#[test]
fn module_response_of_a_package_file_whose_final_specifier_left_the_registry() {
  let (errors, modules) = build(|| {
    let mut loader = MemoryLoader::default();
    loader.add_source_with_text("file:///main.ts", "import 'jsr:@scope/pkg@1';");
    add_pkg(&mut loader, "@scope/pkg", &[("/mod.ts", "export {};")]);
    // the registry (or a proxy in front of it) redirected the package file
    loader.add_source(
      "https://jsr.io/@scope/pkg/1.0.0/mod.ts",
      Source::Module {
        specifier: "https://evil.example.com/mod.ts".to_string(),
        maybe_headers: None,
        content: "export {};".to_string(),
      },
    );
    loader
  });
  println!("errors: {errors:#?}\nmodules: {modules:#?}");
  // C05: redirects of in-package urls are rejected, exactly like a
  // `LoadResponse::Redirect` answer is (JsrLoadError::RedirectInPackage)
  assert!(
    !modules.contains(&"https://evil.example.com/mod.ts".to_string()),
    "a redirected in-package url was admitted as a module"
  );
  assert_eq!(errors.len(), 1);
  assert_eq!(errors[0].0, "https://jsr.io/@scope/pkg/1.0.0/mod.ts");
}
