// C14: "the listing of all specifiers includes redirect sources with their
// targets' results". ModuleGraph::specifiers() silently omits every redirect
// source that is more than one hop away from its module.
#![allow(clippy::disallowed_methods)]

use deno_graph::BuildOptions;
use deno_graph::GraphKind;
use deno_graph::ModuleGraph;
use deno_graph::ModuleSpecifier;
use deno_graph::source::MemoryLoader;
use deno_graph::source::Source;

fn u(s: &str) -> ModuleSpecifier {
  ModuleSpecifier::parse(s).unwrap()
}

#[tokio::test]
async fn specifiers_lists_the_source_of_a_two_hop_redirect() {
  let mut loader = MemoryLoader::default();
  // a.ts -> b.ts -> c.ts (module)
  loader.add_source(
    "https://x/a.ts",
    Source::<_, [u8; 0]>::Redirect("https://x/b.ts"),
  );
  loader.add_source(
    "https://x/b.ts",
    Source::<_, [u8; 0]>::Redirect("https://x/c.ts"),
  );
  loader.add_source_with_text("https://x/c.ts", "export const c = 1;");
  // e.ts -> f.ts -> missing
  loader.add_source(
    "https://x/e.ts",
    Source::<_, [u8; 0]>::Redirect("https://x/f.ts"),
  );
  loader.add_source(
    "https://x/f.ts",
    Source::<_, [u8; 0]>::Redirect("https://x/missing.ts"),
  );

  let mut graph = ModuleGraph::new(GraphKind::All);
  graph
    .build(
      vec![u("https://x/a.ts"), u("https://x/e.ts")],
      vec![],
      &loader,
      BuildOptions::default(),
    )
    .await;

  // the lookups know both roots
  assert_eq!(
    graph.get(&u("https://x/a.ts")).map(|m| m.specifier().as_str()),
    Some("https://x/c.ts")
  );
  assert!(graph.try_get(&u("https://x/e.ts")).is_err());

  let listed = graph
    .specifiers()
    .map(|(s, r)| {
      (
        s.to_string(),
        r.map(|m| m.specifier().to_string()).map_err(|e| e.to_string()),
      )
    })
    .collect::<std::collections::BTreeMap<_, _>>();

  // one hop away: listed (this works)
  assert_eq!(
    listed.get("https://x/b.ts"),
    Some(&Ok("https://x/c.ts".to_string()))
  );
  // two hops away: must be listed with the result of its target
  assert_eq!(
    listed.get("https://x/a.ts"),
    Some(&Ok("https://x/c.ts".to_string())),
    "specifiers() omits the root https://x/a.ts; listed = {listed:#?}"
  );
  assert!(
    matches!(listed.get("https://x/e.ts"), Some(Err(_))),
    "specifiers() omits the root https://x/e.ts; listed = {listed:#?}"
  );
}
