// C01: "static-versus-dynamic (static wins when a specifier is imported both
// ways)" and "nothing reachable is absent".
//
// A module that is imported statically with `import type` (or referenced with
// `/// <reference path>`) and ALSO imported with a dynamic `import()` in the
// same file gets a dependency with `is_dynamic == true`. With
// `skip_dynamic_deps` the statically imported module is then not loaded at all.
use deno_graph::BuildOptions;
use deno_graph::GraphKind;
use deno_graph::ModuleGraph;
use deno_graph::ModuleSpecifier;
use deno_graph::source::MemoryLoader;

fn url(s: &str) -> ModuleSpecifier {
  ModuleSpecifier::parse(s).unwrap()
}

async fn build<'a>(
  kind: GraphKind,
  loader: &'a MemoryLoader,
  root: &str,
  options: BuildOptions<'a>,
) -> ModuleGraph {
  let mut graph = ModuleGraph::new(kind);
  graph.build(vec![url(root)], vec![], loader, options).await;
  graph
}

fn world(main_source: &str) -> MemoryLoader {
  let mut loader = MemoryLoader::default();
  loader.add_source_with_text("file:///a/main.ts", main_source);
  loader.add_source_with_text(
    "file:///a/foo.ts",
    "export interface Foo { a: number } export const foo = 1;",
  );
  loader
}

const IMPORT_TYPE_THEN_DYNAMIC: &str = r#"import type { Foo } from "./foo.ts";
const m = await import("./foo.ts");
"#;

const DYNAMIC_THEN_IMPORT_TYPE: &str = r#"const m = await import("./foo.ts");
import type { Foo } from "./foo.ts";
"#;

const REFERENCE_PATH_THEN_DYNAMIC: &str = r#"/// <reference path="./foo.ts" />
const m = await import("./foo.ts");
"#;

#[tokio::test]
async fn static_type_import_wins_over_dynamic_import() {
  for source in [
    IMPORT_TYPE_THEN_DYNAMIC,
    DYNAMIC_THEN_IMPORT_TYPE,
    REFERENCE_PATH_THEN_DYNAMIC,
  ] {
    for kind in [GraphKind::All, GraphKind::TypesOnly] {
      let loader = world(source);
      let graph =
        build(kind, &loader, "file:///a/main.ts", Default::default()).await;
      let main = graph.get(&url("file:///a/main.ts")).unwrap().js().unwrap();
      let dep = main.dependencies.get("./foo.ts").unwrap();
      // sanity: the static import is recorded on the dependency
      assert!(
        dep.imports.iter().any(|i| !i.is_dynamic),
        "a static import of ./foo.ts is recorded"
      );
      assert!(
        !dep.is_dynamic,
        "{kind:?}: ./foo.ts is imported statically (type import / reference) \
         and dynamically, static must win, but is_dynamic is true for:\n{source}"
      );
    }
  }
}

#[tokio::test]
async fn statically_type_imported_module_is_loaded_with_skip_dynamic_deps() {
  for source in [
    IMPORT_TYPE_THEN_DYNAMIC,
    DYNAMIC_THEN_IMPORT_TYPE,
    REFERENCE_PATH_THEN_DYNAMIC,
  ] {
    for kind in [GraphKind::All, GraphKind::TypesOnly] {
      let loader = world(source);
      let graph = build(
        kind,
        &loader,
        "file:///a/main.ts",
        BuildOptions {
          skip_dynamic_deps: true,
          ..Default::default()
        },
      )
      .await;
      // control: with only the static import the module is in the graph
      let control_loader =
        world(source.replace(r#"const m = await import("./foo.ts");"#, "").as_str());
      let control = build(
        kind,
        &control_loader,
        "file:///a/main.ts",
        BuildOptions {
          skip_dynamic_deps: true,
          ..Default::default()
        },
      )
      .await;
      assert!(control.contains(&url("file:///a/foo.ts")));
      // adding a dynamic import of the same specifier must not remove it
      assert!(
        graph.contains(&url("file:///a/foo.ts")),
        "{kind:?}: foo.ts is reachable through a static type import, so it \
         must be in the graph even when dynamic deps are skipped:\n{source}"
      );
    }
  }
}
