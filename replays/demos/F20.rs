// ============================== REPORT ==============================
// TITLE: No lockfile checksum is recorded for remote modules whose bytes had to be decoded (charset header or invalid UTF-8)
//
// PROPERTY / CLAUSE
// C05: "Every newly seen remote non-declaration module and package manifest has the SHA-256 of exactly
// the bytes used ... handed to the lockfile interface". (Mechanism "visit records sha256 of new remote
// modules unless declaration or already present".)
//
// INPUT
// Empty lockfile (HashMapLocker::default()), main.ts imports three new https modules:
//   plain.ts   bytes `console.log('plain');`                              (control)
//   latin1.ts  bytes `console.log('caf\xe9');`, header
//              content-type: application/typescript; charset=iso-8859-1
//   lossy.ts   bytes `// caf\xe9\nconsole.log('lossy');`, no header       (one invalid utf-8 byte,
//              decoded lossily to U+FFFD)
//
// WHAT THE CODE DOES
// All three are admitted as modules, graph.valid() is Ok. Locker::set_remote_checksum is called for
// plain.ts only. latin1.ts and lossy.ts never reach the lockfile, so in every later run
// `locker.get_remote_checksum` is None and they are loaded without an expected checksum: their content
// can change arbitrarily without an integrity error, and nothing tells the user that these modules are
// not covered by the lockfile.
//
// WHAT IT SHOULD DO
// set_remote_checksum(specifier, sha256(bytes the loader returned)) for each of the three.
//
// ROOT CAUSE
// src/graph.rs:6581-6597 (Builder::visit) records the checksum only
// `&& let Some(source_bytes) = module_source_and_info.try_get_original_source_bytes()`.
// src/graph.rs:3212-3218 / 1438-1456: ModuleTextSource::try_get_original_bytes returns None for
// DecodedArcSourceDetailKind::Changed, i.e. whenever deno_media_type's decode_arc_source_detail had to
// allocate a new string (any non utf-8 charset with a non-ASCII byte, utf-16, or utf-8 with an invalid
// sequence). The original `Arc<[u8]>` is dropped in new_source_with_text (src/graph.rs:7048-7070), so
// when the module reaches visit() the bytes "used" are no longer known and the record is silently
// skipped. (This is what remains of the earlier repair a2cc015, which stopped hashing the decoded text;
// hashing nothing avoids the wrong checksum but breaks the "every new remote module" clause.)
//
// MINIMAL FIX
// Compute the checksum where the bytes still exist and carry it along: e.g. add
// `maybe_checksum_for_locker: Option<LoaderChecksum>` to PendingInfoResponse::Module, fill it in
// handle_success (src/graph.rs:6149-6163) with `LoaderChecksum::new(LoaderChecksum::gen(&options.content))`
// when the specifier is http(s), and use it in visit() instead of try_get_original_source_bytes()
// (alternatively keep the original `Arc<[u8]>` in ModuleSourceAndInfo for the Changed case).
// ====================================================================

// C05: "Every newly seen remote non-declaration module ... has the SHA-256 of
// exactly the bytes used ... handed to the lockfile interface".
//
// A remote module whose bytes are not already the decoded text -- i.e. the
// response has a `charset=` other than utf-8 and a non-ASCII byte, or the bytes
// simply contain one invalid UTF-8 sequence (decoded lossily) -- is admitted as
// a module, but NO checksum is handed to `Locker::set_remote_checksum`.
// The module is therefore never pinned by the lockfile and every later load of
// it is done without an expected checksum, silently.
#![allow(clippy::disallowed_methods)]

use deno_graph::BuildOptions;
use deno_graph::GraphKind;
use deno_graph::ModuleGraph;
use deno_graph::ModuleSpecifier;
use deno_graph::ast::CapturingModuleAnalyzer;
use deno_graph::source::HashMapLocker;
use deno_graph::source::LoaderChecksum;
use deno_graph::source::Locker;
use deno_graph::source::MemoryLoader;
use deno_graph::source::Source;

fn url(s: &str) -> ModuleSpecifier {
  ModuleSpecifier::parse(s).unwrap()
}

const PLAIN: &str = "https://example.com/plain.ts";
const LATIN1: &str = "https://example.com/latin1.ts";
const LOSSY: &str = "https://example.com/lossy.ts";

#[tokio::test]
async fn remote_modules_that_need_decoding_are_recorded_in_the_lockfile() {
  let plain_bytes = b"console.log('plain');".to_vec();
  // `é` in ISO-8859-1, announced by the content-type header
  let latin1_bytes = b"console.log('caf\xe9');".to_vec();
  // utf-8 source with one stray byte in a comment (decoded as U+FFFD)
  let lossy_bytes = b"// caf\xe9\nconsole.log('lossy');".to_vec();

  let mut loader = MemoryLoader::default();
  loader.add_source_with_text(
    "file:///main.ts",
    format!("import '{PLAIN}';\nimport '{LATIN1}';\nimport '{LOSSY}';"),
  );
  loader.add_bytes_source(PLAIN, plain_bytes.clone());
  loader.add_source(
    LATIN1,
    Source::Module {
      specifier: LATIN1.to_string(),
      maybe_headers: Some(vec![(
        "content-type".to_string(),
        "application/typescript; charset=iso-8859-1".to_string(),
      )]),
      content: latin1_bytes.clone(),
    },
  );
  loader.add_bytes_source(LOSSY, lossy_bytes.clone());

  let mut graph = ModuleGraph::new(GraphKind::All);
  let analyzer = CapturingModuleAnalyzer::default();
  let mut locker = HashMapLocker::default();
  graph
    .build(
      vec![url("file:///main.ts")],
      vec![],
      &loader,
      BuildOptions {
        module_analyzer: &analyzer,
        locker: Some(&mut locker),
        ..Default::default()
      },
    )
    .await;

  // all three are admitted as modules without any error
  graph.valid().unwrap();
  for s in [PLAIN, LATIN1, LOSSY] {
    assert!(graph.get(&url(s)).is_some(), "{s} is a module of the graph");
  }
  println!("lockfile remote entries: {:#?}", locker.remote());

  // C05: every new remote module gets the sha-256 of exactly the bytes the
  // loader supplied
  for (s, bytes) in [
    (PLAIN, &plain_bytes),
    (LATIN1, &latin1_bytes),
    (LOSSY, &lossy_bytes),
  ] {
    assert_eq!(
      locker.get_remote_checksum(&url(s)),
      Some(LoaderChecksum::new(LoaderChecksum::r#gen(bytes))),
      "checksum handed to the locker for {s}"
    );
  }
}
