// C14: redirect chains longer than ModuleGraph::resolve's private
// MAX_REDIRECTS (10) are built without any error (no single load exceeds the
// loader's max_redirects() of 10), the walk follows them to the module, but
// resolve() gives up in the middle of the chain: it returns a redirect SOURCE,
// is not idempotent, and get / try_get / contains claim that the root is not
// in the graph.
#![allow(clippy::disallowed_methods)]

use deno_graph::BuildOptions;
use deno_graph::CheckJsOption;
use deno_graph::GraphKind;
use deno_graph::ModuleEntryRef;
use deno_graph::ModuleGraph;
use deno_graph::ModuleSpecifier;
use deno_graph::WalkOptions;
use deno_graph::source::MemoryLoader;
use deno_graph::source::Source;

fn u(s: &str) -> ModuleSpecifier {
  ModuleSpecifier::parse(s).unwrap()
}

fn walked_module(graph: &ModuleGraph, specifier: &ModuleSpecifier) -> Option<String> {
  let roots = [specifier.clone()];
  for (_, entry) in graph.walk(
    roots.iter(),
    WalkOptions {
      check_js: CheckJsOption::True,
      follow_dynamic: false,
      kind: GraphKind::CodeOnly,
      prefer_fast_check_graph: false,
    },
  ) {
    match entry {
      ModuleEntryRef::Redirect(_) => continue,
      ModuleEntryRef::Module(m) => return Some(m.specifier().to_string()),
      ModuleEntryRef::Err(e) => panic!("unexpected error {e}"),
    }
  }
  None
}

fn loader() -> MemoryLoader {
  let mut loader = MemoryLoader::default();
  // s0 -> s1 -> ... -> s10 (10 redirects: exactly the allowed maximum)
  for i in 0..10 {
    loader.add_source(
      format!("https://x/s{i}.ts"),
      Source::<_, [u8; 0]>::Redirect(format!("https://x/s{}.ts", i + 1)),
    );
  }
  loader.add_source_with_text("https://x/s10.ts", "export const a = 1;");
  // y -> s0
  loader.add_source(
    "https://x/y.ts",
    Source::<_, [u8; 0]>::Redirect("https://x/s0.ts".to_string()),
  );
  loader
}

fn check(graph: &ModuleGraph) {
  // nothing failed while building
  assert!(graph.valid().is_ok());
  assert_eq!(graph.module_errors().count(), 0);

  for root in ["https://x/s0.ts", "https://x/y.ts"] {
    let root = u(root);
    // the walk reaches the module from both roots
    assert_eq!(
      walked_module(graph, &root).as_deref(),
      Some("https://x/s10.ts")
    );
    // redirect following is idempotent
    let once = graph.resolve(&root);
    assert_eq!(
      graph.resolve(once),
      once,
      "resolve({root}) = {once} is not a fixed point of resolve()"
    );
    // and the lookups agree with the walk
    assert_eq!(
      graph.get(&root).map(|m| m.specifier().as_str()),
      Some("https://x/s10.ts"),
      "get({root}) does not return the module the walk reaches"
    );
    assert!(graph.contains(&root), "contains({root}) is false");
    assert!(matches!(graph.try_get(&root), Ok(Some(_))));
  }
}

/// one build, two roots
#[tokio::test]
async fn two_roots_sharing_a_maximal_chain() {
  let loader = loader();
  let mut graph = ModuleGraph::new(GraphKind::All);
  graph
    .build(
      vec![u("https://x/s0.ts"), u("https://x/y.ts")],
      vec![],
      &loader,
      BuildOptions::default(),
    )
    .await;
  check(&graph);
}

/// incremental second build adding a root that redirects to the first root
#[tokio::test]
async fn incremental_build_prepending_a_hop() {
  let loader = loader();
  let mut graph = ModuleGraph::new(GraphKind::All);
  graph
    .build(
      vec![u("https://x/s0.ts")],
      vec![],
      &loader,
      BuildOptions::default(),
    )
    .await;
  graph
    .build(
      vec![u("https://x/y.ts")],
      vec![],
      &loader,
      BuildOptions::default(),
    )
    .await;
  check(&graph);
}
