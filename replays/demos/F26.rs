// C17: pruning types from a full graph must give the code-only graph
// (same specifiers with the same module kinds).
//
// A module that ends with `//# sourceMappingURL=./a.js.map` makes the builder
// load the source map as an external asset module, in every graph kind
// (Builder::visit_module). `ModuleGraph::prune_types` only follows
// `dependencies`, never `maybe_source_map_dependency`, so it deletes the
// source map module that a code-only build of the same roots contains.
#![allow(clippy::disallowed_methods)]

use std::collections::BTreeMap;

use deno_ast::ModuleSpecifier;
use deno_graph::BuildOptions;
use deno_graph::GraphKind;
use deno_graph::Module;
use deno_graph::ModuleGraph;
use deno_graph::ast::CapturingModuleAnalyzer;
use deno_graph::source::MemoryLoader;

fn url(s: &str) -> ModuleSpecifier {
  ModuleSpecifier::parse(s).unwrap()
}

async fn build(kind: GraphKind, loader: &MemoryLoader, root: &str) -> ModuleGraph {
  let analyzer = CapturingModuleAnalyzer::default();
  let mut graph = ModuleGraph::new(kind);
  graph
    .build(
      vec![url(root)],
      vec![],
      loader,
      BuildOptions {
        module_analyzer: &analyzer,
        ..Default::default()
      },
    )
    .await;
  graph
}

/// specifier -> module kind or error
fn observe(graph: &ModuleGraph) -> BTreeMap<String, String> {
  graph
    .specifiers()
    .map(|(s, e)| {
      let v = match e {
        Ok(Module::Js(_)) => "js".to_string(),
        Ok(Module::Json(_)) => "json".to_string(),
        Ok(Module::Wasm(_)) => "wasm".to_string(),
        Ok(Module::Npm(_)) => "npm".to_string(),
        Ok(Module::Node(_)) => "node".to_string(),
        Ok(Module::External(_)) => "external".to_string(),
        Err(err) => format!("error: {err}"),
      };
      (s.to_string(), v)
    })
    .collect()
}

#[tokio::test]
async fn prune_types_keeps_the_source_map_module_of_a_code_module() {
  let mut loader = MemoryLoader::default();
  loader.add_source_with_text(
    "file:///a.js",
    "import './b.js';\nexport const a = 1;\n//# sourceMappingURL=./a.js.map\n",
  );
  loader.add_source_with_text("file:///b.js", "export const b = 1;\n");
  loader.add_source_with_text("file:///a.js.map", "{}");

  let mut full = build(GraphKind::All, &loader, "file:///a.js").await;
  let code_only = build(GraphKind::CodeOnly, &loader, "file:///a.js").await;

  // both builds load the source map as an (external asset) module
  assert!(full.contains(&url("file:///a.js.map")));
  assert!(code_only.contains(&url("file:///a.js.map")));
  // and the code module still points at it
  let a = full.get(&url("file:///a.js")).unwrap().js().unwrap();
  assert_eq!(
    a.maybe_source_map_dependency
      .as_ref()
      .unwrap()
      .dependency
      .maybe_specifier()
      .unwrap()
      .as_str(),
    "file:///a.js.map"
  );

  full.prune_types();
  assert_eq!(full.graph_kind(), GraphKind::CodeOnly);

  // C17: the pruned graph has the same specifiers / module kinds as the
  // code-only build. FAILS: file:///a.js.map is missing from the pruned graph.
  assert_eq!(observe(&full), observe(&code_only));
}
