// ============================== REPORT ==============================
// TITLE: The asset pre-checks of load_with_redirect_count overwrite the module slot of a specifier that is also imported validly; the outcome depends on the visiting order
//
// PROPERTY / CLAUSE
// C03: "Each failure becomes an error entry for the affected specifier carrying its referrer, while
// every module not depending on the failure is loaded exactly as it would be without it."
// (Note: the failure here is input driven - an import attribute type that is not enabled - not a loader
// fault; lowest priority of the six findings, but the behaviour is order dependent and loses either the
// error or two healthy modules.)
//
// INPUT (default options, unstable_bytes_imports: false)
//   file:///main.ts   import './m1.ts'; import './m2.ts';     (order A)
//                     import './m2.ts'; import './m1.ts';     (order B)
//   file:///m1.ts     import './a.ts';
//   file:///m2.ts     import b from './a.ts' with { type: 'bytes' };
//   file:///a.ts      import './dep.ts';
//   file:///dep.ts    export {};
//
// WHAT THE CODE DOES
// Order A: graph.valid() == Ok(()), no error entry at all: the unsupported `bytes` import vanished.
// Order B: the slot of file:///a.ts is
//   Err(UnsupportedImportAttributeType { specifier: a.ts, referrer: m2.ts .., kind: "bytes" }),
//   file:///a.ts and file:///dep.ts are not loaded, and m1's perfectly valid import of ./a.ts reports
//   m2's error.
//
// WHAT IT SHOULD DO
// In both orders: a.ts and dep.ts are loaded (m1's import does not depend on m2's failure) and the
// unsupported attribute of m2's import is reported.
//
// ROOT CAUSE
// src/graph.rs:5555-5603: for `options.is_asset` the UnsupportedModuleTypeForSourcePhaseImport and
// UnsupportedImportAttributeType checks do `self.graph.module_slots.insert(specifier, ModuleSlot::Err(..))`
// and return BEFORE the "is there already a slot" test at src/graph.rs:5604.
//  - Order A: the slot is `Pending` (m1's load is in flight); the error replaces it, then the pending
//    load completes and visit() (src/graph.rs:6599-6601) overwrites the error with the module.
//  - Order B: the error is stored first; m1's load finds a slot (src/graph.rs:5604-5640) and returns,
//    so a.ts is never loaded.
// One slot per specifier cannot represent "valid as a module, invalid as this kind of asset import".
//
// MINIMAL FIX
// Do not clobber an existing slot: only insert the error when `module_slots.get(specifier)` is None (so
// a valid import always wins), and report the per-import failure where it belongs, on the dependency
// (e.g. turn dep.maybe_code of that import into a Resolution::Err / let ModuleGraphErrorIterator
// check_resolution validate the attribute type against the enabled unstable flags), so it is reported in
// both orders.
// ====================================================================

// C03: "Each failure becomes an error entry for the affected specifier carrying
// its referrer, while every module not depending on the failure is loaded
// exactly as it would be without it."
//
// m1.ts imports ./a.ts normally (valid); m2.ts imports the same ./a.ts with
// `with { type: "bytes" }` while bytes imports are not enabled (a failure that
// only concerns m2's import). `load_with_redirect_count` reports that failure
// by *overwriting the module slot of ./a.ts* before it even looks whether the
// slot is in use. Depending on which importer is visited first:
//   * m1 first: the slot is `Pending` when the error is written, and the
//     pending load of ./a.ts later overwrites the error again -> the failure
//     vanishes completely (`graph.valid()` is `Ok`);
//   * m2 first: the error occupies the slot, the valid import of m1 finds a
//     slot and returns -> ./a.ts and its dependency ./dep.ts are never loaded
//     and m1's valid import reports m2's error.
// The same pre-check exists for source phase imports
// (`UnsupportedModuleTypeForSourcePhaseImport`).
#![allow(clippy::disallowed_methods)]

use deno_graph::BuildOptions;
use deno_graph::GraphKind;
use deno_graph::ModuleGraph;
use deno_graph::ModuleSpecifier;
use deno_graph::ast::CapturingModuleAnalyzer;
use deno_graph::source::MemoryLoader;

fn url(s: &str) -> ModuleSpecifier {
  ModuleSpecifier::parse(s).unwrap()
}

struct Observed {
  a_is_module: bool,
  dep_is_module: bool,
  failure_reported: bool,
}

async fn build(main: &str) -> Observed {
  let mut loader = MemoryLoader::default();
  loader.add_source_with_text("file:///main.ts", main);
  loader.add_source_with_text("file:///m1.ts", "import './a.ts';");
  loader.add_source_with_text(
    "file:///m2.ts",
    "import b from './a.ts' with { type: 'bytes' };",
  );
  loader.add_source_with_text("file:///a.ts", "import './dep.ts';");
  loader.add_source_with_text("file:///dep.ts", "export {};");

  let mut graph = ModuleGraph::new(GraphKind::All);
  let analyzer = CapturingModuleAnalyzer::default();
  graph
    .build(
      vec![url("file:///main.ts")],
      vec![],
      &loader,
      BuildOptions {
        module_analyzer: &analyzer,
        unstable_bytes_imports: false,
        ..Default::default()
      },
    )
    .await;
  println!("{main}\n  valid() = {:?}", graph.valid().map_err(|e| e.to_string()));
  Observed {
    a_is_module: graph.get(&url("file:///a.ts")).is_some(),
    dep_is_module: graph.get(&url("file:///dep.ts")).is_some(),
    failure_reported: graph.valid().is_err()
      || graph.module_errors().next().is_some(),
  }
}

#[tokio::test]
async fn unsupported_attribute_import_neither_vanishes_nor_hides_a_valid_import()
{
  let m1_first = build("import './m1.ts'; import './m2.ts';").await;
  let m2_first = build("import './m2.ts'; import './m1.ts';").await;

  for (name, o) in [("m1 first", &m1_first), ("m2 first", &m2_first)] {
    // m1's plain import of ./a.ts does not depend on m2's invalid import
    assert!(o.a_is_module, "{name}: ./a.ts (validly imported by m1) is loaded");
    assert!(o.dep_is_module, "{name}: ./dep.ts (dependency of ./a.ts) is loaded");
    // the failure of m2's import is reported
    assert!(
      o.failure_reported,
      "{name}: the unsupported `bytes` import of m2.ts is reported as an error"
    );
  }
}
