// Replays for C14 against the real crate (see /verif/known-findings.json).
use deno_graph::ast::CapturingModuleAnalyzer;
use deno_graph::source::*;
use deno_graph::*;

fn url(s: &str) -> ModuleSpecifier {
  ModuleSpecifier::parse(s).unwrap()
}

/// F1 (fixed): r0 -> r1 -> ... -> r10 (10 redirects, what Loader::max_redirects() permits),
/// module at r10.  Lookups must reach the module the walk reaches.
#[tokio::test]
async fn f1_chain_of_ten_redirects() {
  let mut sources: Vec<(String, Source<String, String>)> = vec![];
  for i in 0..10 {
    sources.push((
      format!("https://x.test/r{}", i),
      Source::Redirect(format!("https://x.test/r{}", i + 1)),
    ));
  }
  sources.push((
    "https://x.test/r10".to_string(),
    Source::Module {
      specifier: "https://x.test/r10".to_string(),
      maybe_headers: Some(vec![(
        "content-type".to_string(),
        "application/javascript".to_string(),
      )]),
      content: "export {};".to_string(),
    },
  ));
  let loader = MemoryLoader::new(sources, vec![]);
  let mut graph = ModuleGraph::new(GraphKind::All);
  let analyzer = CapturingModuleAnalyzer::default();
  graph
    .build(
      vec![url("https://x.test/r0")],
      vec![],
      &loader,
      BuildOptions {
        module_analyzer: &analyzer,
        ..Default::default()
      },
    )
    .await;
  let r0 = url("https://x.test/r0");
  let walk_reaches_module = graph
    .walk(
      std::iter::once(&r0),
      WalkOptions {
        check_js: CheckJsOption::True,
        follow_dynamic: false,
        kind: GraphKind::All,
        prefer_fast_check_graph: false,
      },
    )
    .any(|(s, e)| s.as_str() == "https://x.test/r10" && matches!(e, ModuleEntryRef::Module(_)));
  let get_ok = graph.get(&r0).map(|m| m.specifier().as_str() == "https://x.test/r10").unwrap_or(false);
  let idem = graph.resolve(graph.resolve(&r0)) == graph.resolve(&r0);
  let detail = format!(
    "walk_reaches_module={} get(r0)_is_r10={} contains(r0)={} resolve(r0)={} idempotent={}",
    walk_reaches_module,
    get_ok,
    graph.contains(&r0),
    graph.resolve(&r0),
    idem
  );
  if walk_reaches_module && (!get_ok || !graph.contains(&r0) || !idem) {
    println!("REPLAY F1 PRESENT {}", detail);
  } else {
    println!("REPLAY F1 ABSENT {}", detail);
  }
}

/// F6 (open): a redirect cycle a -> b -> a (seeded through the public lockfile API):
/// resolve is not idempotent on it.
#[test]
fn f6_redirect_cycle_not_idempotent() {
  let mut graph = ModuleGraph::new(GraphKind::All);
  let reds = vec![
    ("https://x.test/a", "https://x.test/b"),
    ("https://x.test/b", "https://x.test/a"),
  ];
  let pk: Vec<(&deno_semver::jsr::JsrDepPackageReq, &str)> = vec![];
  graph.fill_from_lockfile(FillFromLockfileOptions {
    redirects: reds.into_iter(),
    package_specifiers: pk.into_iter(),
  });
  let a = url("https://x.test/a");
  let r1 = graph.resolve(&a).clone();
  let r2 = graph.resolve(&r1).clone();
  let detail = format!("resolve(a)={} resolve(resolve(a))={}", r1, r2);
  if r1 != r2 {
    println!("REPLAY F6 PRESENT {}", detail);
  } else {
    println!("REPLAY F6 ABSENT {}", detail);
  }
}
