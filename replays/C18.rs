// Replays for C18 against the real crate (see /verif/known-findings.json).
use deno_graph::ast::CapturingModuleAnalyzer;
use deno_graph::source::*;
use deno_graph::*;

fn url(s: &str) -> ModuleSpecifier {
  ModuleSpecifier::parse(s).unwrap()
}

async fn build(
  sources: Vec<(&str, Source<&str, &str>)>,
  roots: Vec<&str>,
  kind: GraphKind,
) -> ModuleGraph {
  let loader = MemoryLoader::new(sources, vec![]);
  let mut graph = ModuleGraph::new(kind);
  let analyzer = CapturingModuleAnalyzer::default();
  graph
    .build(
      roots.into_iter().map(url).collect(),
      vec![],
      &loader,
      BuildOptions {
        module_analyzer: &analyzer,
        ..Default::default()
      },
    )
    .await;
  graph
}

fn sources() -> Vec<(&'static str, Source<&'static str, &'static str>)> {
  vec![
    (
      "https://x/main.ts",
      Source::Module { specifier: "https://x/main.ts", maybe_headers: None, content: "import './a.ts';" },
    ),
    (
      "https://x/a.ts",
      Source::Module { specifier: "https://x/a.ts", maybe_headers: None, content: "import { b } from './b.js'; export const a = b;" },
    ),
    (
      "https://x/b.js",
      Source::Module {
        specifier: "https://x/b.js",
        maybe_headers: Some(vec![("content-type", "application/javascript"), ("x-typescript-types", "./b.d.ts")]),
        content: "export const b = 1;",
      },
    ),
    (
      "https://x/b.d.ts",
      Source::Module { specifier: "https://x/b.d.ts", maybe_headers: None, content: "export const b: number;" },
    ),
  ]
}

/// F4 (open): in a types-only graph, segmenting at a non-root drops the untyped module that has a types
/// dependency, although a contained module imports it: the dependency `./b.js` of a.ts reaches a module in the
/// original and nothing in the segment, and a direct types-only build of a.ts contains b.js.
#[tokio::test]
async fn f4_types_only_segment_drops_substituted_module() {
  let graph = build(sources(), vec!["https://x/main.ts"], GraphKind::TypesOnly).await;
  let seg = graph.segment(&[url("https://x/a.ts")]);
  let direct = build(sources(), vec!["https://x/a.ts"], GraphKind::TypesOnly).await;
  let b = url("https://x/b.js");
  let in_original = graph.get(&b).is_some();
  let in_segment = seg.get(&b).is_some();
  let in_direct = direct.get(&b).is_some();
  let dep_orig = graph.resolve_dependency("./b.js", &url("https://x/a.ts"), false).map(|u| graph.get(u).is_some());
  let dep_seg = seg.resolve_dependency("./b.js", &url("https://x/a.ts"), false).map(|u| seg.get(u).is_some());
  let detail = format!(
    "original.get(b.js)={} segment.get(b.js)={} direct_build.get(b.js)={} resolve_dependency('./b.js', a.ts, code) reaches a module: original={:?} segment={:?}",
    in_original, in_segment, in_direct, dep_orig, dep_seg
  );
  if in_original && !in_segment {
    println!("REPLAY F4 PRESENT {}", detail);
  } else {
    println!("REPLAY F4 ABSENT {}", detail);
  }
}

/// control: the same segmentation of a kind-All graph keeps b.js
#[tokio::test]
async fn f4_control_all_kind_keeps_module() {
  let graph = build(sources(), vec!["https://x/main.ts"], GraphKind::All).await;
  let seg = graph.segment(&[url("https://x/a.ts")]);
  let b = url("https://x/b.js");
  println!("REPLAY F4control {} original.get(b.js)={} segment.get(b.js)={}", if graph.get(&b).is_some() && seg.get(&b).is_some() { "ABSENT" } else { "PRESENT" }, graph.get(&b).is_some(), seg.get(&b).is_some());
}
