// Replays for C02 against the real crate (see /verif/known-findings.json).
use deno_graph::ast::CapturingModuleAnalyzer;
use deno_graph::source::*;
use deno_graph::*;

fn url(s: &str) -> ModuleSpecifier {
  ModuleSpecifier::parse(s).unwrap()
}

async fn build(
  sources: Vec<(&str, Source<&str, &str>)>,
  roots: Vec<&str>,
  imports: Vec<ReferrerImports>,
  kind: GraphKind,
) -> ModuleGraph {
  let loader = MemoryLoader::new(sources, vec![]);
  let mut graph = ModuleGraph::new(kind);
  let analyzer = CapturingModuleAnalyzer::default();
  graph
    .build(
      roots.into_iter().map(url).collect(),
      imports,
      &loader,
      BuildOptions {
        module_analyzer: &analyzer,
        ..Default::default()
      },
    )
    .await;
  graph
}

fn validate(graph: &ModuleGraph, roots: &[ModuleSpecifier], follow_dynamic: bool, check_js: bool, kind: GraphKind) -> bool {
  graph
    .walk(
      roots.iter(),
      WalkOptions {
        check_js: if check_js { CheckJsOption::True } else { CheckJsOption::False },
        follow_dynamic,
        kind,
        prefer_fast_check_graph: false,
      },
    )
    .validate()
    .is_ok()
}

/// F2a (open): a missing ROOT validates Ok when dynamic edges are followed.
#[tokio::test]
async fn f2a_missing_root_with_follow_dynamic() {
  let graph = build(vec![], vec!["file:///missing.ts"], vec![], GraphKind::All).await;
  let roots = vec![url("file:///missing.ts")];
  let ok_static = validate(&graph, &roots, false, true, GraphKind::All);
  let ok_dynamic = validate(&graph, &roots, true, true, GraphKind::All);
  let detail = format!("validate(follow_dynamic=false).is_ok()={} validate(follow_dynamic=true).is_ok()={}", ok_static, ok_dynamic);
  if !ok_static && ok_dynamic {
    println!("REPLAY F2a PRESENT {}", detail);
  } else {
    println!("REPLAY F2a ABSENT {}", detail);
  }
}

/// F2b (open): a missing configured type import validates Ok when dynamic edges are followed.
#[tokio::test]
async fn f2b_missing_configured_import_with_follow_dynamic() {
  let graph = build(
    vec![(
      "file:///a.ts",
      Source::Module {
        specifier: "file:///a.ts",
        maybe_headers: None,
        content: "export {};",
      },
    )],
    vec!["file:///a.ts"],
    vec![ReferrerImports {
      referrer: url("file:///deno.json"),
      imports: vec!["./missing_types.d.ts".to_string()],
    }],
    GraphKind::All,
  )
  .await;
  let roots = vec![url("file:///a.ts")];
  let ok_static = validate(&graph, &roots, false, true, GraphKind::All);
  let ok_dynamic = validate(&graph, &roots, true, true, GraphKind::All);
  let detail = format!("validate(follow_dynamic=false).is_ok()={} validate(follow_dynamic=true).is_ok()={}", ok_static, ok_dynamic);
  if !ok_static && ok_dynamic {
    println!("REPLAY F2b PRESENT {}", detail);
  } else {
    println!("REPLAY F2b ABSENT {}", detail);
  }
}

/// F2c (open): a missing JSDoc type import of a JavaScript module, check_js=false: the edge is
/// followed by the walk but not checked by the error listing.
#[tokio::test]
async fn f2c_missing_jsdoc_import_unchecked_js_with_follow_dynamic() {
  let graph = build(
    vec![(
      "file:///a.js",
      Source::Module {
        specifier: "file:///a.js",
        maybe_headers: None,
        content: "/** @import {X} from './missing.d.ts' */\nexport {};",
      },
    )],
    vec!["file:///a.js"],
    vec![],
    GraphKind::All,
  )
  .await;
  let roots = vec![url("file:///a.js")];
  let ok_static = validate(&graph, &roots, false, false, GraphKind::All);
  let ok_dynamic = validate(&graph, &roots, true, false, GraphKind::All);
  let detail = format!("check_js=false: validate(follow_dynamic=false).is_ok()={} validate(follow_dynamic=true).is_ok()={}", ok_static, ok_dynamic);
  if !ok_static && ok_dynamic {
    println!("REPLAY F2c PRESENT {}", detail);
  } else {
    println!("REPLAY F2c ABSENT {}", detail);
  }
}

/// F3 (fixed with F1): a statically imported module that is MISSING behind a chain of 10 redirects
/// validated Ok when dynamic edges were followed (the in-place check stopped one hop early).
#[tokio::test]
async fn f3_missing_behind_ten_redirects() {
  let mut owned: Vec<(String, Source<String, String>)> = vec![(
    "https://x.test/main.js".to_string(),
    Source::Module {
      specifier: "https://x.test/main.js".to_string(),
      maybe_headers: Some(vec![("content-type".to_string(), "application/javascript".to_string())]),
      content: "import 'https://x.test/r0';".to_string(),
    },
  )];
  for i in 0..10 {
    owned.push((format!("https://x.test/r{}", i), Source::Redirect(format!("https://x.test/r{}", i + 1))));
  }
  let loader = MemoryLoader::new(owned, vec![]);
  let mut graph = ModuleGraph::new(GraphKind::All);
  let analyzer = CapturingModuleAnalyzer::default();
  graph
    .build(
      vec![url("https://x.test/main.js")],
      vec![],
      &loader,
      BuildOptions { module_analyzer: &analyzer, ..Default::default() },
    )
    .await;
  let roots = vec![url("https://x.test/main.js")];
  let ok_static = validate(&graph, &roots, false, true, GraphKind::All);
  let ok_dynamic = validate(&graph, &roots, true, true, GraphKind::All);
  let detail = format!("validate(follow_dynamic=false).is_ok()={} validate(follow_dynamic=true).is_ok()={}", ok_static, ok_dynamic);
  if !ok_static && ok_dynamic {
    println!("REPLAY F3 PRESENT {}", detail);
  } else {
    println!("REPLAY F3 ABSENT {}", detail);
  }
}
