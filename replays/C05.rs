// Replays for C05 against the real crate (see /verif/known-findings.json).
use deno_graph::ast::CapturingModuleAnalyzer;
use deno_graph::source::*;
use deno_graph::*;
use futures::FutureExt;
use std::cell::RefCell;
use std::sync::Arc;

fn url(s: &str) -> ModuleSpecifier {
  ModuleSpecifier::parse(s).unwrap()
}

/// A loader that follows the documented protocol: "It is the loader's responsibility to verify the provided
/// checksum ... The source may be verified by running `checksum.check_source(content)?`" (src/source/mod.rs).
struct VerifyingLoader {
  files: Vec<(&'static str, Vec<u8>)>,
  presented: RefCell<Vec<(String, Option<String>)>>,
}

impl Loader for VerifyingLoader {
  fn load(&self, specifier: &ModuleSpecifier, options: LoadOptions) -> LoadFuture {
    self.presented.borrow_mut().push((
      specifier.to_string(),
      options.maybe_checksum.as_ref().map(|c| c.as_str().to_string()),
    ));
    let found = self.files.iter().find(|(s, _)| *s == specifier.as_str()).map(|(_, b)| b.clone());
    let result = match found {
      None => Ok(None),
      Some(bytes) => {
        if let Some(checksum) = &options.maybe_checksum {
          if let Err(err) = checksum.check_source(&bytes) {
            return async move { Err(LoadError::ChecksumIntegrity(err)) }.boxed_local();
          }
        }
        Ok(Some(LoadResponse::Module {
          content: Arc::from(bytes),
          mtime: None,
          specifier: specifier.clone(),
          maybe_headers: None,
        }))
      }
    };
    async move { result }.boxed_local()
  }
}

async fn build(loader: &VerifyingLoader, locker: &mut HashMapLocker, root: &str) -> ModuleGraph {
  let mut graph = ModuleGraph::new(GraphKind::All);
  let analyzer = CapturingModuleAnalyzer::default();
  graph
    .build(
      vec![url(root)],
      vec![],
      loader,
      BuildOptions { module_analyzer: &analyzer, locker: Some(locker), ..Default::default() },
    )
    .await;
  graph
}

/// F7: for a remote module whose bytes start with a UTF-8 byte-order mark the checksum handed to the lockfile is
/// the SHA-256 of the DECODED text (BOM stripped), not of the bytes the loader supplied; a later build that
/// presents this checksum to a verifying loader rejects the unchanged module.
#[tokio::test]
async fn f7_lockfile_checksum_of_remote_module_with_bom() {
  let root = "https://x.test/mod.ts";
  let mut bytes = vec![0xEF, 0xBB, 0xBF];
  bytes.extend_from_slice(b"export const a = 1;\n");
  let loader = VerifyingLoader { files: vec![(root, bytes.clone())], presented: RefCell::new(vec![]) };
  let mut locker = HashMapLocker::default();
  let g1 = build(&loader, &mut locker, root).await;
  let first_ok = g1.try_get(&url(root)).map(|m| m.is_some()).unwrap_or(false);
  let recorded = locker.remote().get(&url(root)).map(|c| c.as_str().to_string());
  let of_loaded_bytes = LoaderChecksum::r#gen(&bytes);
  let of_text_without_bom = LoaderChecksum::r#gen(&bytes[3..]);
  // second, fresh build with the lockfile written by the first one
  let g2 = build(&loader, &mut locker, root).await;
  let second = match g2.try_get(&url(root)) {
    Ok(Some(_)) => "loaded".to_string(),
    Ok(None) => "nothing".to_string(),
    Err(e) => format!("error: {}", e).replace('\n', " "),
  };
  let detail = format!(
    "first_build_loaded={} recorded={:?} sha256(loaded bytes)={} sha256(text without BOM)={} second_build={}",
    first_ok, recorded, of_loaded_bytes, of_text_without_bom, second
  );
  if first_ok && recorded.as_deref() != Some(of_loaded_bytes.as_str()) {
    println!("REPLAY F7 PRESENT {}", detail);
  } else {
    println!("REPLAY F7 ABSENT {}", detail);
  }
}

/// control: without a BOM the recorded checksum is the checksum of the loaded bytes and the second build loads
#[tokio::test]
async fn f7_control_plain_utf8() {
  let root = "https://x.test/plain.ts";
  let bytes = b"export const a = 1;\n".to_vec();
  let loader = VerifyingLoader { files: vec![(root, bytes.clone())], presented: RefCell::new(vec![]) };
  let mut locker = HashMapLocker::default();
  let _ = build(&loader, &mut locker, root).await;
  let recorded = locker.remote().get(&url(root)).map(|c| c.as_str().to_string());
  let g2 = build(&loader, &mut locker, root).await;
  let ok = recorded.as_deref() == Some(LoaderChecksum::r#gen(&bytes).as_str()) && matches!(g2.try_get(&url(root)), Ok(Some(_)));
  println!("REPLAY F7control {} recorded={:?}", if ok { "ABSENT" } else { "PRESENT" }, recorded);
}
