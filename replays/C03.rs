// Replays for C03 against the real crate (see /verif/known-findings.json).
use deno_graph::ast::CapturingModuleAnalyzer;
use deno_graph::source::*;
use deno_graph::*;

fn url(s: &str) -> ModuleSpecifier {
  ModuleSpecifier::parse(s).unwrap()
}

/// F8: a registry version manifest whose export value is not joinable to the package URL
/// (`"exports": {".": "http://["}`) makes the build panic (`base_url.join(export_value).unwrap()`),
/// although C03 demands that malformed package metadata becomes an error entry.
#[tokio::test]
async fn f8_malformed_export_value_panics() {
  let result = std::panic::AssertUnwindSafe(async {
    let loader = MemoryLoader::new(
      vec![
        (
          "file:///main.ts",
          Source::Module { specifier: "file:///main.ts", maybe_headers: None, content: "import 'jsr:@scope/a@1';" },
        ),
        (
          "https://jsr.io/@scope/a/meta.json",
          Source::Module { specifier: "https://jsr.io/@scope/a/meta.json", maybe_headers: None, content: r#"{"versions": {"1.0.0": {}}}"# },
        ),
        (
          "https://jsr.io/@scope/a/1.0.0_meta.json",
          Source::Module {
            specifier: "https://jsr.io/@scope/a/1.0.0_meta.json",
            maybe_headers: None,
            content: r#"{"exports": {".": "http://["}, "manifest": {}}"#,
          },
        ),
      ],
      vec![],
    );
    let mut graph = ModuleGraph::new(GraphKind::All);
    let analyzer = CapturingModuleAnalyzer::default();
    graph
      .build(vec![url("file:///main.ts")], vec![], &loader, BuildOptions { module_analyzer: &analyzer, ..Default::default() })
      .await;
    let entry = graph.try_get(&url("jsr:@scope/a@1"));
    format!("{:?}", entry.map(|m| m.map(|m| m.specifier().to_string())).map_err(|e| e.to_string()))
  });
  use futures::FutureExt;
  match result.catch_unwind().await {
    Ok(detail) => println!("REPLAY F8 ABSENT build finished; jsr:@scope/a@1 -> {}", detail.replace('\n', " ")),
    Err(p) => {
      let msg = p.downcast_ref::<String>().cloned().or_else(|| p.downcast_ref::<&str>().map(|s| s.to_string())).unwrap_or_default();
      println!("REPLAY F8 PRESENT build panicked: {}", msg.replace('\n', " "));
    }
  }
}

async fn f9_build(with_registry: bool) -> Result<String, String> {
  let result = std::panic::AssertUnwindSafe(async {
    let mut sources = vec![(
      "file:///main.ts",
      Source::Module { specifier: "file:///main.ts", maybe_headers: None, content: "import 'jsr:http:[@1';" },
    )];
    if with_registry {
      sources.push((
        "https://jsr.io/http:[/meta.json",
        Source::Module { specifier: "https://jsr.io/http:[/meta.json", maybe_headers: None, content: r#"{"versions": {"1.0.0": {}}}"# },
      ));
      sources.push((
        "https://jsr.io/http:[/1.0.0_meta.json",
        Source::Module {
          specifier: "https://jsr.io/http:[/1.0.0_meta.json",
          maybe_headers: None,
          content: r#"{"exports": {".": "./mod.ts"}, "manifest": {}}"#,
        },
      ));
    }
    let loader = MemoryLoader::new(sources, vec![]);
    let mut graph = ModuleGraph::new(GraphKind::All);
    let analyzer = CapturingModuleAnalyzer::default();
    graph
      .build(vec![url("file:///main.ts")], vec![], &loader, BuildOptions { module_analyzer: &analyzer, ..Default::default() })
      .await;
    let errs: Vec<String> = graph.module_errors().map(|e| e.to_string().replace('\n', " ")).collect();
    format!("{:?}", errs)
  });
  use futures::FutureExt;
  result.catch_unwind().await.map_err(|p| {
    p.downcast_ref::<String>().cloned().or_else(|| p.downcast_ref::<&str>().map(|s| s.to_string())).unwrap_or_default().replace('\n', " ")
  })
}

/// F9: a source text that imports `jsr:http:[@1` makes the build panic: the package name `http:[` (deno_semver accepts
/// any first path part as a name) is spliced into `registry_url.join("{name}/meta.json").unwrap()`, where it is read as
/// an absolute URL with an invalid host.  With a registry that answers for that name the same happens one step later
/// (version manifest URL, package URL).  C03: "a build finishes without panicking".
#[tokio::test]
async fn f9_jsr_package_name_read_as_url_panics() {
  let a = f9_build(false).await;
  let b = f9_build(true).await;
  match (&a, &b) {
    (Ok(x), Ok(y)) => println!("REPLAY F9 ABSENT build finished; errors without registry entry: {}; with: {}", x, y),
    _ => println!("REPLAY F9 PRESENT build panicked: {}", a.err().or(b.err()).unwrap_or_default()),
  }
}
