// Replays for C07 against the real crate (see /verif/known-findings.json).
use deno_graph::packages::*;
use deno_graph::source::*;
use deno_graph::*;
use deno_semver::Version;
use std::collections::BTreeMap;

fn url(s: &str) -> ModuleSpecifier {
  ModuleSpecifier::parse(s).unwrap()
}

fn add_package(loader: &mut MemoryLoader, name: &str, version: &str, files: &[(&str, &str)]) {
  loader.add_jsr_package_info(
    name,
    &JsrPackageInfo {
      versions: vec![(Version::parse_standard(version).unwrap(), JsrPackageInfoVersion::default())].into_iter().collect(),
      latest: None,
    },
  );
  loader.add_jsr_version_info(name, version, &JsrPackageVersionInfo { exports: serde_json::json!({".": "./mod.ts"}), ..Default::default() });
  for (path, text) in files {
    loader.add_source_with_text(format!("https://jsr.io/{}/{}/{}", name, version, path), text);
  }
}

fn deps(graph: &ModuleGraph) -> BTreeMap<String, Vec<String>> {
  graph
    .packages
    .packages_with_deps()
    .map(|(nv, deps)| {
      let mut deps = deps.map(|d| d.to_string()).collect::<Vec<_>>();
      deps.sort();
      (nv.to_string(), deps)
    })
    .collect()
}

fn panic_text(p: Box<dyn std::any::Any + Send>) -> String {
  p.downcast_ref::<String>().cloned().or_else(|| p.downcast_ref::<&str>().map(|s| s.to_string())).unwrap_or_default().replace('\n', " ")
}

/// F10: inside @scope/a@1.0.0, the url https://jsr.io/@scope/a/1.0.0-rc.1/mod.ts was treated as a file of 1.0.0
/// (get_subpath: plain string prefix); when that module imported a jsr: specifier the requirement was attributed to
/// 1.0.0-rc.1, which had no table entry, and the build panicked in PackageSpecifiers::add_dependency.
#[tokio::test]
async fn f10_url_of_a_prerelease_sibling_version() {
  use futures::FutureExt;
  let result = std::panic::AssertUnwindSafe(async {
    let mut loader = MemoryLoader::default();
    loader.add_source_with_text("file:///main.ts", "import 'jsr:@scope/a@1.0.0';\n");
    add_package(&mut loader, "@scope/a", "1.0.0", &[("mod.ts", "import 'https://jsr.io/@scope/a/1.0.0-rc.1/mod.ts';\n")]);
    loader.add_jsr_version_info("@scope/a", "1.0.0-rc.1", &JsrPackageVersionInfo { exports: serde_json::json!({".": "./mod.ts"}), ..Default::default() });
    loader.add_source_with_text("https://jsr.io/@scope/a/1.0.0-rc.1/mod.ts", "import 'jsr:@scope/c';\n");
    add_package(&mut loader, "@scope/c", "1.0.0", &[("mod.ts", "export const c = 1;\n")]);
    let mut graph = ModuleGraph::new(GraphKind::All);
    graph.build(vec![url("file:///main.ts")], Vec::new(), &loader, Default::default()).await;
    deps(&graph)
  })
  .catch_unwind()
  .await;
  match result {
    Ok(d) if d.get("@scope/a@1.0.0-rc.1") == Some(&vec!["jsr:@scope/c".to_string()]) && d.get("@scope/a@1.0.0").map(|v| v.is_empty()).unwrap_or(false) => {
      println!("REPLAY F10 ABSENT build finished; dependencies by package: {:?}", d)
    }
    Ok(d) => println!("REPLAY F10 PRESENT requirement attributed to the wrong package version: {:?}", d),
    Err(p) => println!("REPLAY F10 PRESENT build panicked: {}", panic_text(p)),
  }
}

/// F11: two registry packages dynamically import the same jsr: specifier; only the first importer got the
/// requirement recorded (dynamic branches are queued once per specifier).
#[tokio::test]
async fn f11_dynamic_import_of_the_same_requirement_from_two_packages() {
  let mut loader = MemoryLoader::default();
  loader.add_source_with_text("file:///main.ts", "import 'jsr:@scope/a';\nimport 'jsr:@scope/b';\n");
  add_package(&mut loader, "@scope/a", "1.0.0", &[("mod.ts", "await import('jsr:@scope/c');\n")]);
  add_package(&mut loader, "@scope/b", "1.0.0", &[("mod.ts", "await import('jsr:@scope/c');\n")]);
  add_package(&mut loader, "@scope/c", "1.0.0", &[("mod.ts", "export const c = 1;\n")]);
  let mut graph = ModuleGraph::new(GraphKind::All);
  graph.build(vec![url("file:///main.ts")], Vec::new(), &loader, Default::default()).await;
  let d = deps(&graph);
  let want = Some(&vec!["jsr:@scope/c".to_string()]);
  if d.get("@scope/a@1.0.0") == want && d.get("@scope/b@1.0.0") == want {
    println!("REPLAY F11 ABSENT both importers carry the requirement: {:?}", d);
  } else {
    println!("REPLAY F11 PRESENT a dynamically importing package lacks the requirement: {:?}", d);
  }
}

/// F12: recommended_registry_package_url_to_nv attributed urls that are not inside a package's url to that package
/// (lenient version text `v1.0.0`; a doubled slash after the registry url).
#[test]
fn f12_url_outside_the_package_url_attributed_to_the_package() {
  let reg = url("https://jsr.io/");
  let mut bad = Vec::new();
  for u in ["https://jsr.io/@scope/a/v1.0.0/mod.ts", "https://jsr.io//@scope/a/1.0.0/mod.ts", "https://jsr.io/@scope/a/=1.0.0/mod.ts"] {
    let target = url(u);
    if let Some(nv) = recommended_registry_package_url_to_nv(&reg, &target) {
      let back = recommended_registry_package_url(&reg, &nv);
      if !target.as_str().starts_with(back.as_str()) {
        bad.push(format!("{} -> {} (package url {})", u, nv, back));
      }
    }
  }
  // the conversion still round-trips for a well-formed package url
  let nv = recommended_registry_package_url_to_nv(&reg, &url("https://jsr.io/@scope/a/1.0.0-rc.1/mod.ts")).map(|nv| nv.to_string());
  if bad.is_empty() && nv.as_deref() == Some("@scope/a@1.0.0-rc.1") {
    println!("REPLAY F12 ABSENT only urls inside the package url are attributed to it");
  } else {
    println!("REPLAY F12 PRESENT {:?} / well-formed url gives {:?}", bad, nv);
  }
}
