// Replays for C20 against the real crate (see /verif/known-findings.json).
use deno_graph::*;
use std::sync::Arc;

/// F5 (open): the serialized `size` of a text module is `text.len() as u32`; for a text of
/// 4 GiB + 5 bytes the reported size is 5, not the byte length of the stored text.
#[test]
fn f5_serialized_size_truncates_at_4gib() {
  let n: usize = (1usize << 32) + 5;
  let text: Arc<str> = Arc::from("a".repeat(n));
  let module = JsonModule {
    specifier: ModuleSpecifier::parse("file:///big.json").unwrap(),
    maybe_cache_info: None,
    source: ModuleTextSource::new_unknown(text),
    mtime: None,
    media_type: MediaType::Json,
  };
  let size_fn = module.size();
  let v = serde_json::to_value(&module).unwrap();
  let reported = v.get("size").and_then(|s| s.as_u64()).unwrap();
  let detail = format!("text.len()={} size()={} serialized size={}", n, size_fn, reported);
  if reported != n as u64 {
    println!("REPLAY F5 PRESENT {}", detail);
  } else {
    println!("REPLAY F5 ABSENT {}", detail);
  }
}
