// Replays for C06 against the real crate (see /verif/known-findings.json).
use deno_graph::source::*;
use deno_graph::*;
use deno_semver::jsr::JsrDepPackageReq;
use deno_semver::package::PackageReq;
use std::cell::RefCell;

fn url(s: &str) -> ModuleSpecifier {
  ModuleSpecifier::parse(s).unwrap()
}

fn module(specifier: &ModuleSpecifier, content: &'static [u8]) -> LoadFuture {
  let specifier = specifier.clone();
  Box::pin(async move { Ok(Some(LoadResponse::Module { specifier, maybe_headers: None, mtime: None, content: content.to_vec().into() })) })
}

/// a registry whose CACHED meta.json of @scope/a is stale (1.0.0 only; 1.2.0 appears on reload), and a package
/// @scope/b with versions 1.0.0 and 1.1.0
#[derive(Default)]
struct StaleCacheLoader {
  requests: RefCell<Vec<(String, CacheSetting)>>,
}
impl Loader for StaleCacheLoader {
  fn load(&self, specifier: &ModuleSpecifier, options: LoadOptions) -> LoadFuture {
    self.requests.borrow_mut().push((specifier.to_string(), options.cache_setting));
    match specifier.as_str() {
      "file:///main.ts" => module(specifier, b"import 'jsr:@scope/b@1';\nimport 'jsr:@scope/a@1.2';\n"),
      "file:///only_b.ts" => module(specifier, b"import 'jsr:@scope/b@1';\n"),
      "https://jsr.io/@scope/a/meta.json" => match options.cache_setting {
        CacheSetting::Only | CacheSetting::Use => module(specifier, br#"{ "versions": { "1.0.0": {} } }"#),
        CacheSetting::Reload => module(specifier, br#"{ "versions": { "1.0.0": {}, "1.2.0": {} } }"#),
      },
      "https://jsr.io/@scope/b/meta.json" => module(specifier, br#"{ "versions": { "1.0.0": {}, "1.1.0": {} } }"#),
      "https://jsr.io/@scope/a/1.2.0_meta.json" | "https://jsr.io/@scope/b/1.0.0_meta.json" | "https://jsr.io/@scope/b/1.1.0_meta.json" => {
        module(specifier, br#"{ "exports": { ".": "./mod.ts" }, "manifest": {} }"#)
      }
      "https://jsr.io/@scope/a/1.2.0/mod.ts" | "https://jsr.io/@scope/b/1.0.0/mod.ts" | "https://jsr.io/@scope/b/1.1.0/mod.ts" => module(specifier, b"export const x = 1;"),
      _ => Box::pin(async move { Ok(None) }),
    }
  }
}

async fn selected_b(root: &str) -> (String, bool) {
  let loader = StaleCacheLoader::default();
  let mut graph = ModuleGraph::new(GraphKind::All);
  // the lockfile selected @scope/b@1.0.0 for the requirement jsr:@scope/b@1
  let specifiers = [(JsrDepPackageReq::from_str("jsr:@scope/b@1").unwrap(), "1.0.0")];
  graph.fill_from_lockfile(FillFromLockfileOptions { redirects: std::iter::empty(), package_specifiers: specifiers.iter().map(|(k, v)| (k, *v)) });
  graph.build(vec![url(root)], Vec::new(), &loader, Default::default()).await;
  let nv = graph.packages.mappings().get(&PackageReq::from_str("@scope/b@1").unwrap()).map(|nv| nv.to_string()).unwrap_or_else(|| "<none>".to_string());
  let restarted = loader.requests.borrow().iter().any(|(s, c)| s.ends_with("@scope/a/meta.json") && *c == CacheSetting::Reload);
  (nv, restarted)
}

/// F13: selections seeded from the lockfile are lost when the build restarts with cache busting (a stale cached
/// meta.json of ANOTHER package): `jsr:@scope/b@1`, which the lockfile pins to 1.0.0, then resolves to the newest
/// 1.1.0.  C06: "resolves to the highest version already selected for that package in this graph (lockfile-seeded
/// selections included)".
#[tokio::test]
async fn f13_lockfile_selection_lost_on_restart() {
  let (without_restart, r0) = selected_b("file:///only_b.ts").await;
  let (with_restart, r1) = selected_b("file:///main.ts").await;
  if without_restart == "@scope/b@1.0.0" && !r0 && r1 && with_restart == "@scope/b@1.0.0" {
    println!("REPLAY F13 ABSENT jsr:@scope/b@1 -> {} with and without a cache-busting restart", with_restart);
  } else {
    println!("REPLAY F13 PRESENT jsr:@scope/b@1 -> {} without a restart (restarted: {}), -> {} when the build restarts (restarted: {})", without_restart, r0, with_restart, r1);
  }
}
