"""Kani units (DESIGN.md §3.6): harnesses from /verif/kani/*.rs are included into a scratch copy of
/repo's working tree as `#[cfg(kani)] mod verif_kani` and run by `cargo kani` on the crate's own
code and types.  Harnesses with #[kani::unwind] are reported as BOUNDED, never as proofs."""
import os, re, json, subprocess, shutil, fcntl, time

VERIF = os.path.dirname(os.path.dirname(os.path.abspath(__file__)))
REPO = os.environ.get('VERIF_REPO', '/repo')
SCRATCH = '/tmp/vx-kani'


def run(k, tier='quick', pid=None):
    """k: {name, file, harness_prefix, bound_note[, thorough_prefix, thorough_expect_harnesses, thorough_bound_note]}"""
    if tier == 'thorough' and k.get('thorough_prefix') and not k.get('_is_thorough_part'):
        a = run(dict(k, _is_thorough_part=True), tier='quick', pid=pid)
        if a['status'] != 'ok':
            return a
        b = run(dict(k, _is_thorough_part=True, harness_prefix=k['thorough_prefix'], expect_harnesses=k.get('thorough_expect_harnesses'),
                     bound_note=k.get('thorough_bound_note', '')), tier='quick', pid=pid)
        b['harnesses'] = a['harnesses'] + b['harnesses']
        b['checks'] += a['checks']
        b['samples'] = a['samples'] + b['samples']
        b['bound'] = a['bound'] + ' | thorough: ' + b['bound']
        b['wall_s'] = round(a.get('wall_s', 0) + b.get('wall_s', 0), 1)
        return b
    t0 = time.time()
    src = os.path.join(VERIF, 'kani', k['file'])
    lock = open('/tmp/vx-kani.lock', 'w')
    fcntl.flock(lock, fcntl.LOCK_EX)
    res = {'name': k['name'], 'status': 'ok', 'checks': 0, 'failed': 0, 'harnesses': [], 'bounded': True,
           'bound': k.get('bound_note', ''), 'samples': [], 'trusted': k.get('trusted', [])}
    try:
        if os.path.exists(SCRATCH):
            shutil.rmtree(SCRATCH)
        subprocess.run(['rsync', '-a', '--exclude', 'target', '--exclude', '.git', REPO.rstrip('/') + '/', SCRATCH + '/'], check=True)
        # (same reason as in replay.py: never reuse a build of a different copy of the sources)
        for root, _dirs, files in os.walk(os.path.join(SCRATCH, 'src')):
            for fn in files:
                os.utime(os.path.join(root, fn), None)
        with open(os.path.join(SCRATCH, 'src', 'lib.rs'), 'a') as fh:
            fh.write('\n#[cfg(kani)] mod verif_kani { include!("%s"); }\n' % src)
        env = dict(os.environ, CARGO_NET_OFFLINE='true', CARGO_TARGET_DIR='/repo/target/vx-kani')
        env.pop('RUSTUP_TOOLCHAIN', None)
        cmd = ['cargo', 'kani', '--no-default-features', '--harness', k['harness_prefix'], '--output-format', 'terse']
        res['cmd'] = 'CARGO_NET_OFFLINE=true ' + ' '.join(cmd) + '   (in a scratch copy of the working tree with `#[cfg(kani)] mod verif_kani { include!("%s"); }` appended to src/lib.rs)' % src
        try:
            p = subprocess.run(cmd, cwd=SCRATCH, env=env, capture_output=True, text=True, timeout=3000)
        except subprocess.TimeoutExpired:
            res['status'] = 'undecided'
            res['reason'] = 'cargo kani timed out'
            return res
        out = p.stdout + '\n' + p.stderr
        cur = None
        for ln in out.split('\n'):
            m = re.search(r'Checking harness (\S+?)\.\.\.', ln)
            if m:
                cur = {'harness': m.group(1), 'result': None, 'checks': 0, 'failed': 0}
                res['harnesses'].append(cur)
            m = re.search(r'\*\* (\d+) of (\d+) failed', ln)
            if m and cur is not None:
                cur['failed'] = int(m.group(1))
                cur['checks'] = int(m.group(2))
            m = re.search(r'VERIFICATION:- (\w+)', ln)
            if m and cur is not None:
                cur['result'] = m.group(1)
        m = re.search(r'Complete - (\d+) successfully verified harnesses, (\d+) failures, (\d+) total', out)
        if not m or not res['harnesses']:
            res['status'] = 'undecided'
            res['reason'] = 'no Kani summary (build or tool error): ' + out[-800:].replace('\n', ' ')
            return res
        res['checks'] = sum(h['checks'] for h in res['harnesses'])
        res['failed'] = sum(h['failed'] for h in res['harnesses'])
        res['samples'] = ['kani harness %s: %s (%d checks)' % (h['harness'], h['result'], h['checks']) for h in res['harnesses']]
        expected = k.get('expect_harnesses')
        if expected is not None and len(res['harnesses']) != expected:
            res['status'] = 'undecided'
            res['reason'] = 'vacuity: expected %d harnesses, Kani ran %d' % (expected, len(res['harnesses']))
            return res
        n_ok, n_fail, n_total = int(m.group(1)), int(m.group(2)), int(m.group(3))
        failed_names = re.findall(r'Verification failed for - (\S+)', out)
        bad = [h for h in res['harnesses'] if h['harness'] in failed_names or h['harness'].split('::')[-1] in failed_names]
        if n_fail == 0 and n_ok == n_total:
            bad = []
        elif not bad:
            bad = [h for h in res['harnesses'] if h['result'] not in ('SUCCESSFUL', None)] or res['harnesses'][:1]
        if bad:
            # replay: ask Kani for a concrete counterexample of the first failing harness
            h = bad[0]['harness'].split('::')[-1]
            cmd2 = ['cargo', 'kani', '--no-default-features', '--harness', h, '-Z', 'concrete-playback', '--concrete-playback=print']
            p2 = subprocess.run(cmd2, cwd=SCRATCH, env=env, capture_output=True, text=True, timeout=3000)
            out2 = p2.stdout + '\n' + p2.stderr
            rdir = os.path.join(VERIF, 'evidence', 'replay')
            os.makedirs(rdir, exist_ok=True)
            rp = os.path.join(rdir, '%s-kani-%s.txt' % (pid, h))
            playback = re.search(r'Concrete playback unit test for.*?```(.*?)```', out2, re.S)
            failed_checks = re.findall(r'Failed Checks: (.*)', out + out2)
            with open(rp, 'w') as fh:
                fh.write('property: %s\nfailed Kani harness: %s (real code of the working tree, CBMC)\nfailed checks: %s\n\n' % (pid, bad[0]['harness'], failed_checks[:10]))
                if playback:
                    fh.write('---- concrete counterexample (Kani concrete playback; paste into the crate with the harness module to replay) ----\n' + playback.group(1) + '\n')
                else:
                    fh.write('---- Kani gave no concrete playback ----\n' + out2[-3000:])
            res['status'] = 'violation'
            res['replay'] = rp
            res['obligation'] = 'kani.' + bad[0]['harness']
            res['suffix'] = 'counterexample-from-kani' if playback else 'no-failing-input-found'
        return res
    finally:
        res['wall_s'] = round(time.time() - t0, 1)
        shutil.rmtree(SCRATCH, ignore_errors=True)
        fcntl.flock(lock, fcntl.LOCK_UN)
        lock.close()
