"""Assemble one unit (prelude + specs + mechanically extracted real functions with injected
contracts), run Verus on it, classify every failed obligation.  DESIGN.md §3.4/§3.5."""
import os, re, json, subprocess, time, hashlib
from . import vc

VERIF = os.path.dirname(os.path.dirname(os.path.abspath(__file__)))
VX = os.path.join(VERIF, 'tools', 'vx', 'target', 'release', 'vx')
REPO = os.environ.get('VERIF_REPO', '/repo')

VERIFICATION_MSGS = (
    'postcondition not satisfied', 'precondition not satisfied', 'invariant not satisfied',
    'assertion failed', 'decreases not satisfied', 'possible arithmetic', 'possible division by zero',
    'loop invariant', 'unreachable', 'possible bit shift', 'failed this',
    'cannot show invariant', 'unable to prove post-condition of closure', 'unable to prove', 'fails to satisfy', 'index out of bounds', 'could not prove', 'termination',
)
UNDECIDED_MSGS = ('Resource limit', 'rlimit', 'timed out', 'resource limit')

SCAN_PATTERNS = [
    ('external_body', re.compile(r'#\[verifier::external_body\]')),
    ('assume_specification', re.compile(r'\bassume_specification\b')),
    ('external_type_specification', re.compile(r'#\[verifier::external_type_specification\]')),
    ('external_trait_specification', re.compile(r'#\[verifier::external_trait_specification')),
    ('admit', re.compile(r'\badmit\s*\(')),
    ('assume', re.compile(r'\bassume\s*\(')),
    ('external', re.compile(r'#\[verifier::external\]')),
    ('axiom_fn', re.compile(r'\bproof\s+fn\s+axiom_\w+')),
    ('uninterp', re.compile(r'\buninterp\s+spec\s+fn\b')),
    ('no_decreases', re.compile(r'exec_allows_no_decreases_clause')),
]


def run_vx(job):
    p = subprocess.run([VX], input=json.dumps(job), capture_output=True, text=True)
    if p.returncode != 0:
        return None, ['vx failed: ' + p.stderr[-2000:]]
    out = json.loads(p.stdout)
    return out, out.get('errors', [])


def _read_fragment(rel):
    return open(os.path.join(VERIF, rel)).read()


def assemble(u, vxout, outpath):
    """Returns (text, item_ranges[(start,end,path)], labels{line:label})"""
    parts = []
    head = ['#![feature(allocator_api)]', '#![allow(unused_imports, unused_variables, unused_mut, dead_code, unused_parens, unused_braces, non_snake_case, unreachable_code, unused_assignments, non_camel_case_types, unreachable_patterns)]',
            '// GENERATED on every run by /verif/lib/verus_unit.py from %s and /repo working tree. Do not edit.' % os.path.relpath(u.path, VERIF),
            'use vstd::prelude::*;']
    parts.append('\n'.join(head) + '\n')
    uses = set()
    for f in ['prelude/vx_rules.rs'] + [x for x in u.prelude if x != 'prelude/vx_rules.rs']:
        frag = _read_fragment(f)
        # @omit NAME...: opaque stand-ins of the shared preludes that this unit replaces by extracted real items
        for name in getattr(u, 'omit', []):
            frag = re.sub(r'(opaque!\([^)]*?)\b%s\b\s*,?\s*' % re.escape(name), r'\1', frag)
            frag = '\n'.join(l for l in frag.split('\n') if not re.search(r'pub struct Ex\w*\(%s\);' % re.escape(name), l))
        frag = re.sub(r'(opaque!\([^)]*?),\s*\)', r'\1)', frag)
        # top-level `use` lines of the fragments are collected, split into single names and emitted once
        kept = []
        for l in frag.split('\n'):
            m1 = re.match(r'^use ([\w:]+)::\{([^}]*)\};\s*$', l)
            m2 = re.match(r'^use ([\w:]+);\s*$', l)
            if m1:
                for n in m1.group(2).split(','):
                    if n.strip():
                        uses.add('use %s::%s;' % (m1.group(1), n.strip()))
            elif m2:
                uses.add('use %s;' % m2.group(1))
            else:
                kept.append(l)
        frag = '\n'.join(kept)
        parts.append('// ======== prelude: %s\n' % f + frag)
    for f in u.specs:
        parts.append('// ======== specs: %s\n' % f + _read_fragment(f))
    parts.append('// ======== extracted from the working tree by vx (rules R1..R12 only)\nverus! {\n')
    parts.insert(1, '\n'.join(sorted(uses)) + '\n')
    text = '\n'.join(parts)
    ranges = []
    line = text.count('\n') + 1
    for it in vxout['items']:
        hdr = '// ---- vx item: %s  (%s:%d-%d) sha256=%s\n' % (it['path'], it['file'], it['line_start'], it['line_end'], it['fingerprint'])
        body = it['text'].rstrip('\n') + '\n\n'
        start = line
        text += hdr + body
        line += hdr.count('\n') + body.count('\n')
        ranges.append((start, line - 1, it['path']))
    text += '} // verus!\nfn main() {}\n'
    labels = {}
    for i, l in enumerate(text.split('\n'), 1):
        m = re.search(r'//\s*\[([A-Za-z0-9_.:\-]+)\]\s*$', l)
        if m:
            labels[i] = m.group(1)
    os.makedirs(os.path.dirname(outpath), exist_ok=True)
    open(outpath, 'w').write(text)
    return text, ranges, labels


def scan_assumptions(text):
    found = []
    lines = text.split('\n')
    for i, l in enumerate(lines):
        s = l.strip()
        if s.startswith('//'):
            continue
        for name, rx in SCAN_PATTERNS:
            if rx.search(l):
                # describe by the next non-attribute line
                desc = s
                if name in ('external_body', 'external_type_specification', 'external', 'external_trait_specification'):
                    j = i + 1
                    while j < len(lines) and (lines[j].strip().startswith('#[') or not lines[j].strip()):
                        j += 1
                    if j < len(lines):
                        desc = lines[j].strip()
                found.append('%s: %s' % (name, desc[:160]))
    return found


def parse_errors(stderr, fname):
    """Split rustc-style diagnostics into blocks."""
    blocks = []
    cur = None
    for ln in stderr.split('\n'):
        m = re.match(r'^(error|warning|note)(\[[A-Z0-9]+\])?: (.*)$', ln)
        if m:
            cur = {'level': m.group(1), 'msg': m.group(3), 'lines': [], 'primary': None, 'text': [ln]}
            blocks.append(cur)
            continue
        if cur is None:
            continue
        cur['text'].append(ln)
        m = re.match(r'^\s*--> (.*?):(\d+):(\d+)', ln)
        if m:
            if cur['primary'] is None:
                cur['primary'] = int(m.group(2))
            cur['lines'].append(int(m.group(2)))
        m = re.match(r'^\s*(\d+)\s*\|', ln)
        if m:
            cur['lines'].append(int(m.group(1)))
    return blocks


def item_at(ranges, line):
    for s, e, p in ranges:
        if s <= line <= e:
            return p
    return None


def classify(blocks, ranges, labels, unit_name):
    """-> (failed_obligations, tool_errors, undecided)"""
    failed, tool, undecided = [], [], []
    for b in blocks:
        if b['level'] != 'error':
            continue
        msg = b['msg']
        if msg.startswith('aborting due to'):
            continue
        if any(k in msg for k in UNDECIDED_MSGS):
            undecided.append({'msg': msg, 'where': item_at(ranges, b['primary'] or 0), 'text': '\n'.join(b['text'])})
            continue
        is_rustc = bool(b['text']) and re.match(r'\s*error\[E\d+\]', b['text'][0]) is not None
        if not is_rustc and any(k in msg for k in VERIFICATION_MSGS):
            lab = None
            cand = ([b['primary']] if b['primary'] else []) + b['lines']
            for ln in cand:
                if ln in labels:
                    lab = labels[ln]
                    break
            where = None
            for ln in cand:
                where = item_at(ranges, ln)
                if where:
                    break
            fn = (where or 'specs').split('::', 1)[-1].replace('::', '.')
            name = '%s.%s.%s' % (unit_name, fn, lab if lab else 'line%s[%s]' % (b['primary'], msg))
            failed.append({'obligation': name, 'label': lab, 'fn': where, 'msg': msg, 'line': b['primary'], 'text': '\n'.join(b['text'])})
        else:
            tool.append({'msg': msg, 'line': b['primary'], 'text': '\n'.join(b['text'])})
    return failed, tool, undecided


def run_verus(path, flags, timeout=1800):
    cmd = ['verus', path, '--edition=2024', '--output-json', '--time', '--multiple-errors', '20'] + list(flags)
    t0 = time.time()
    try:
        p = subprocess.run(cmd, capture_output=True, text=True, timeout=timeout, cwd=os.path.dirname(path))
    except subprocess.TimeoutExpired:
        return cmd, None, 'timeout', time.time() - t0
    js = None
    try:
        js = json.loads(p.stdout)
    except Exception:
        # stdout may contain non-json noise before the json
        i = p.stdout.find('{')
        try:
            js = json.loads(p.stdout[i:]) if i >= 0 else None
        except Exception:
            js = None
    return cmd, js, p.stderr, time.time() - t0


def fn_breakdown(js):
    out = []
    try:
        for m in js['times-ms']['smt']['smt-run-module-times']:
            for f in m.get('function-breakdown', []):
                out.append({'function': f['function'], 'mode': f.get('mode:', f.get('mode')), 'smt_ms': f['time'], 'rlimit': f['rlimit'], 'success': f['success']})
    except Exception:
        pass
    return out


def _lemmas_with_requires(src):
    """(name, generics, params, requires-text) of every `proof fn` in src that has a requires clause"""
    out = []
    for m in re.finditer(r'proof fn (\w+)', src):
        i = m.end()
        gen = ''
        if src[i] == '<':
            j = src.index('>', i)
            gen = src[i:j + 1]
            i = j + 1
        if src[i] != '(':
            continue
        depth = 0
        j = i
        while True:
            ch = src[j]
            if ch in '([{':
                depth += 1
            elif ch in ')]}':
                depth -= 1
                if depth == 0:
                    break
            j += 1
        params = src[i + 1:j]
        rest = src[j + 1:]
        mm = re.match(r'\s*requires\b', rest)
        if not mm:
            continue
        k = mm.end()
        depth = 0
        start = k
        req = None
        while k < len(rest):
            ch = rest[k]
            if ch in '([{':
                if ch == '{' and depth == 0 and re.match(r'\s*$', rest[start:k].split('\n')[-1]) :
                    # body starts (a `{` at the beginning of a line at depth 0)
                    req = rest[start:k]
                    break
                depth += 1
            elif ch in ')]}':
                depth -= 1
            elif depth == 0 and re.match(r'(ensures|decreases)\b', rest[k:]) and not (rest[k - 1].isalnum() or rest[k - 1] == '_'):
                req = rest[start:k]
                break
            k += 1
        if req is None or 'decreases' in req:
            continue
        # recursive lemmas (with a decreases clause) are skipped only if decreases precedes ensures
        out.append((m.group(1), gen, params, req))
    return out


def _baseline_differential(r, u, bdir, flags):
    """Some proof hints lost their anchor statement and an obligation of such a function failed.
    Decide whether the CODE CHANGE or the LOST HINT is responsible: verify the committed (HEAD)
    version of the same functions with the same hints dropped.  If HEAD still verifies without
    them, the change broke the obligation (violation); otherwise the failure is explained by the
    missing hint and stays undecided."""
    import tempfile
    affected = [f for f in r.failed if f['fn'] in r.lost_inserts]
    if not affected:
        return
    tmp = tempfile.mkdtemp(prefix='vx-base-')
    try:
        for k, p in u.modules.items():
            if p.startswith('registry:') or os.path.isabs(p):
                continue
            dst = os.path.join(tmp, p)
            os.makedirs(os.path.dirname(dst), exist_ok=True)
            base_repo = REPO if os.path.isdir(os.path.join(REPO, '.git')) else os.environ.get('VERIF_BASE_REPO', '/repo')
            g = subprocess.run(['git', '-C', base_repo, 'show', 'HEAD:' + p], capture_output=True, text=True)
            if g.returncode != 0:
                r.reasons.append('baseline: cannot read HEAD:%s; lost anchors cannot be told from a defect' % p)
                r.status = 'undecided'
                r.undecided.append({'msg': 'baseline unavailable', 'where': None, 'text': ''})
                r.failed = [f for f in r.failed if f['fn'] not in r.lost_inserts]
                return
            open(dst, 'w').write(g.stdout)
        vxb, errs = run_vx(vc.job(u, sentinel=False, soft_inserts=False, drop_inserts=r.lost_inserts, repo=tmp))
        if vxb is None or errs:
            r.reasons.append('baseline: extraction of HEAD failed: %s' % errs[:2])
            for f in affected:
                f['hint_lost'] = True
            return
        bpath = os.path.join(bdir, 'baseline.rs')
        btext, branges, blabels = assemble(u, vxb, bpath)
        blines = btext.split('\n')
        clines = open(r.unit_file).read().split('\n')

        def key_of(f, lines):
            if f.get('label'):
                return (f['fn'], 'label:' + f['label'])
            ln = f.get('line')
            src = lines[ln - 1] if ln and 0 < ln <= len(lines) else ''
            return (f['fn'], 'src:' + re.sub(r'\s+', '', src) + '|' + f['msg'])

        base_fail = set()
        base_ran = {}
        for fn in sorted(set(f['fn'] for f in affected)):
            short = '::'.join(fn.split('::')[-2:]) if fn.count('::') >= 2 else fn.split('::')[-1]
            cmd, js, stderr, wall = run_verus(bpath, list(flags) + ['--verify-root', '--verify-function', short])
            if not js or isinstance(stderr, str) and stderr == 'timeout':
                base_ran[fn] = False
                continue
            base_ran[fn] = True
            bfailed, btool, bund = classify(parse_errors(stderr, bpath), branges, blabels, u.name)
            if btool or bund:
                base_ran[fn] = False
            for bf in bfailed:
                base_fail.add(key_of(bf, blines))
        r.baseline = {'functions': base_ran, 'failing_without_the_lost_hints': sorted('%s %s' % k for k in base_fail)}
        kept = []
        for f in r.failed:
            if f['fn'] not in r.lost_inserts:
                kept.append(f)
                continue
            if not base_ran.get(f['fn']):
                r.undecided.append({'msg': 'baseline for %s could not be computed' % f['fn'], 'where': f['fn'], 'text': f['text']})
                r.reasons.append('lost anchor in %s: baseline could not be computed' % f['fn'])
                r.status = 'undecided'
            elif key_of(f, clines) in base_fail:
                # the committed code fails the SAME obligation once the hint is gone: explained by the lost hint
                r.undecided.append({'msg': 'obligation also fails on the committed code without the lost hint', 'where': f['fn'], 'text': f['text']})
            else:
                f['text'] += '\n\nnote: %d statement-level proof hint(s) of this function lost their anchor; the COMMITTED version of the function, verified with the same hints dropped, does NOT fail this obligation — the code change does.' % len(r.lost_inserts[f['fn']])
                kept.append(f)
        r.failed = kept
        if not kept and r.undecided:
            r.status = 'undecided'
            r.reasons.append('lost anchor(s): every failing obligation also fails on the committed code once the hint is dropped')
    finally:
        import shutil
        shutil.rmtree(tmp, ignore_errors=True)


class UnitResult:
    pass


def check_unit(vc_path, tier='quick', sentinel=True, build_dir=None, pid=None):
    r = UnitResult()
    t0 = time.time()
    u = vc.parse(vc_path)
    r.unit = u
    r.name = u.name
    r.status = 'ok'
    r.reasons = []
    r.failed = []
    r.tool_errors = []
    r.undecided = []
    bdir = build_dir or os.path.join(VERIF, 'build', u.name)
    os.makedirs(bdir, exist_ok=True)
    # 1. extraction from the working tree
    vxout, errs = run_vx(vc.job(u, sentinel=False, soft_inserts=True))
    r.extraction_errors = errs
    if vxout is None or errs:
        r.status = 'undecided'
        r.reasons += ['extraction: ' + e for e in errs]
        r.wall = time.time() - t0
        r.vx = vxout
        return r
    r.vx = vxout
    # statement-level proof hints whose anchor statement no longer exists (soft anchors)
    r.lost_inserts = {}
    for it in vxout['items']:
        lost = sorted(int(k.split(':')[1]) for k in it['rules'] if k.startswith('LOST_INSERT:'))
        if lost:
            r.lost_inserts[it['path']] = lost
            for k in [k for k in it['rules'] if k.startswith('LOST_INSERT:')]:
                del it['rules'][k]
    # cascade: a hint that only makes sense together with a lost one (it mentions a ghost name that a lost hint
    # declares) is dropped as well -- e.g. `let ghost e0 = err;` anchored on a statement that is gone, and the assertion
    # about e0 anchored on one that is still there.  Both count as lost hints of the function (baseline differential).
    if r.lost_inserts:
        by_path = {o['path']: o for o in u.items}
        grew = False
        for ipath, lost in list(r.lost_inserts.items()):
            inserts = by_path.get(ipath, {}).get('inserts', [])
            names = set()
            for k in lost:
                if k < len(inserts):
                    names |= set(re.findall(r'let\s+ghost\s+(?:mut\s+)?(\w+)', inserts[k].get('text', '')))
            dependents = [k for k, ins in enumerate(inserts) if k not in lost and ins.get('at') in ('before', 'after', 'arm_start', 'arm_end')
                          and any(re.search(r'\b%s\b' % re.escape(n), ins.get('text', '')) for n in names)]
            if dependents:
                r.lost_inserts[ipath] = sorted(set(lost) | set(dependents))
                grew = True
        if grew:
            vxout2, errs2 = run_vx(vc.job(u, sentinel=False, soft_inserts=True, drop_inserts=r.lost_inserts))
            if vxout2 is not None and not errs2:
                for it in vxout2['items']:
                    for k in [k for k in it['rules'] if k.startswith('LOST_INSERT:')]:
                        del it['rules'][k]
                vxout = vxout2
                r.vx = vxout
    path = os.path.join(bdir, 'unit.rs')
    text, ranges, labels = assemble(u, vxout, path)
    r.unit_file = path
    r.labels = labels
    r.assumptions = scan_assumptions(text)
    if u.assumptions is not None and len(r.assumptions) != u.assumptions:
        r.status = 'undecided'
        r.reasons.append('assumption scan: %d found, %d allowed by %s' % (len(r.assumptions), u.assumptions, os.path.basename(vc_path)))
    flags = list(u.flags)
    if tier == 'thorough':
        # drop `--rlimit N` (two tokens) or `--rlimit=N`, then ask for the thorough limit
        kept, skip = [], False
        for f in flags:
            if skip:
                skip = False
                continue
            if f == '--rlimit':
                skip = True
                continue
            if f.startswith('--rlimit'):
                continue
            kept.append(f)
        flags = kept + ['--rlimit', '60']
    cmd, js, stderr, wall = run_verus(path, flags)
    r.cmd = ' '.join(cmd)
    r.verus_wall = wall
    r.js = js
    r.stderr = stderr
    if js is None:
        r.status = 'undecided'
        r.reasons.append('verus produced no result (%s)' % (stderr if stderr == 'timeout' else 'no json'))
        r.tool_errors = [{'msg': 'verus: no json', 'text': (stderr or '')[-4000:], 'line': None}]
        r.wall = time.time() - t0
        return r
    res = js.get('verification-results', {})
    r.verified = res.get('verified', 0)
    r.errors = res.get('errors', 0)
    r.functions = fn_breakdown(js)
    r.version = js.get('times-ms', {}).get('verus-build', {}).get('version')
    r.smt_ms = js.get('times-ms', {}).get('smt', {}).get('smt-run')
    blocks = parse_errors(stderr, path)
    r.failed, r.tool_errors, r.undecided = classify(blocks, ranges, labels, u.name)
    carr = {it['path']: it.get('carries') for it in u.items}
    for f in r.failed:
        f['carries'] = carr.get(f['fn']) or u.serves
    if r.tool_errors or res.get('encountered-vir-error'):
        r.status = 'undecided'
        r.reasons += ['tool: ' + t['msg'] for t in r.tool_errors[:5]]
    if r.undecided:
        r.status = 'undecided'
        r.reasons += ['solver: ' + t['msg'] for t in r.undecided[:5]]
    if r.failed and r.lost_inserts:
        _baseline_differential(r, u, bdir, flags)
    if r.failed:
        if r.status != 'undecided' or not r.tool_errors:
            r.status = 'violation'
    # a lost hint that CARRIES a labelled clause (`assert(..); // [label]`): the clause could not be attached to the code,
    # so it has not been checked on this tree.  When nothing else fails this is not a pass: undecided (exit 2).
    if r.status == 'ok' and r.lost_inserts:
        by_path = {o['path']: o for o in u.items}
        for ipath, lost in r.lost_inserts.items():
            inserts = by_path.get(ipath, {}).get('inserts', [])
            labs = []
            for k in lost:
                if k < len(inserts):
                    labs += re.findall(r'//\s*\[([\w]+)\]', inserts[k].get('text', ''))
            if labs:
                r.status = 'undecided'
                r.reasons.append('lost anchor in %s: the clause(s) %s could not be attached (the statement they are stated at is gone)' % (ipath, ', '.join(labs[:4])))
    if r.failed:
        pass
    elif not res.get('success') and r.status == 'ok':
        r.status = 'undecided'
        r.reasons.append('verus reported failure without a classified error')
    if r.verified == 0 and r.status == 'ok':
        r.status = 'undecided'
        r.reasons.append('vacuity: zero obligations verified')
    # 2. vacuity sentinels: every contracted function must FAIL `ensures false`
    r.sentinels = {'run': False}
    if sentinel and r.status == 'ok':
        contracted = [it['path'] for it in u.items if vc.is_fn_item(it) and not it.get('nosentinel')]
        vx2, errs2 = run_vx(vc.job(u, sentinel=True))
        spath = os.path.join(bdir, 'sentinel.rs')
        stext, sranges, slabels = assemble(u, vx2, spath)
        # plus a consistency sentinel over all prelude/spec axioms, and one sentinel per spec lemma
        # that has a `requires`: same parameters and hypotheses, `ensures false`, empty body
        lemma_sent = []
        spec_src = '\n'.join(_read_fragment(f) for f in (u.sentinel_specs if u.sentinel_specs is not None else u.specs))
        extra = 'proof fn __vx_consistency()\n  ensures false, // [__sentinel]\n{ }\n'
        for name, gen, params, req in _lemmas_with_requires(spec_src):
            lemma_sent.append(name)
            extra += 'proof fn __sentinel_lemma_%s%s(%s)\n  requires %s\n  ensures\n    false, // [__sentinel_lemma:%s]\n{ }\n' % (name, gen, params, req.strip().rstrip(','), name)
        stext = stext.replace('} // verus!\nfn main() {}\n', extra + '} // verus!\nfn main() {}\n')
        open(spath, 'w').write(stext)
        slabels = {}
        lemma_lines = {}
        for i, l in enumerate(stext.split('\n'), 1):
            if l.rstrip().endswith('// [__sentinel]'):
                slabels[i] = '__sentinel'
            mm = re.search(r'// \[__sentinel_lemma:(\w+)\]\s*$', l)
            if mm:
                lemma_lines[i] = mm.group(1)
        scmd, sjs, sstderr, swall = run_verus(spath, flags)
        sblocks = parse_errors(sstderr if isinstance(sstderr, str) else '', spath)
        failed_sent = set()
        n_axiom_sent = False
        for b in sblocks:
            if b['level'] != 'error':
                continue
            hit = [ln for ln in ([b['primary']] + b['lines']) if ln in slabels]
            if hit:
                w = None
                for ln in [b['primary']] + b['lines']:
                    w = item_at(sranges, ln or 0)
                    if w:
                        break
                if w is not None:
                    failed_sent.add(w)
                else:
                    n_axiom_sent = True
        # sentinel copies are the LAST len(contracted) items of the sentinel file
        sent_ranges = sranges[len(sranges) - len(contracted):]
        failed_idx = set()
        for b in sblocks:
            if b['level'] != 'error':
                continue
            for ln in [b['primary']] + b['lines']:
                if ln in slabels or any(k2 in b['msg'] for k2 in UNDECIDED_MSGS):
                    for k, (s0, e0, p0) in enumerate(sent_ranges):
                        if ln is not None and s0 <= ln <= e0:
                            failed_idx.add(k)
        vacuous = [sent_ranges[k][2] for k in range(len(sent_ranges)) if k not in failed_idx]
        failed_lemmas = set()
        # a sentinel that the solver gives up on (rlimit) has not been proved either
        sent_fn_line = {}
        for i, l in enumerate(stext.split('\n'), 1):
            mm = re.match(r'\s*proof fn __sentinel_lemma_(\w+?)(<|\()', l)
            if mm:
                sent_fn_line[i] = mm.group(1)
        for b in sblocks:
            if b['level'] != 'error':
                continue
            for ln in [b['primary']] + b['lines']:
                if ln in lemma_lines:
                    failed_lemmas.add(lemma_lines[ln])
                if ln in sent_fn_line:
                    failed_lemmas.add(sent_fn_line[ln])
        vac_lemmas = [n for n in lemma_sent if n not in failed_lemmas]
        vacuous += ['lemma ' + n for n in vac_lemmas]
        r.sentinels = {'run': True, 'lemma_hypothesis_sentinels': len(lemma_sent), 'contracted': len(contracted), 'failed_as_required': len(contracted) + len(lemma_sent) - len(vacuous), 'vacuous': vacuous, 'axiom_consistency_sentinel_failed_as_required': n_axiom_sent, 'wall_s': round(swall, 2)}
        if vacuous or not n_axiom_sent:
            r.status = 'undecided'
            r.reasons.append('vacuity: sentinel `ensures false` verified for %s%s' % (vacuous, '' if n_axiom_sent else ' and for the axiom-consistency sentinel'))
    r.wall = time.time() - t0
    return r
