"""Replays of known findings and of fixed defects against the REAL crate (DESIGN.md §3.7).

A replay is a Rust integration test under /verif/replays/ that builds a concrete graph with the
crate's own MemoryLoader / public API and prints, per finding id, one line
    REPLAY <finding-id> PRESENT <what the real code answered>
    REPLAY <finding-id> ABSENT  <what the real code answered>
The test file is compiled against a scratch copy of /repo's working tree (removed afterwards);
build output goes to /repo's own target directory so dependencies are not rebuilt.
"""
import os, re, json, subprocess, shutil, fcntl, time

VERIF = os.path.dirname(os.path.dirname(os.path.abspath(__file__)))
REPO = os.environ.get('VERIF_REPO', '/repo')
SCRATCH = '/tmp/vx-replay'


def run_file(rs_name, timeout=3000):
    """-> (dict id -> (state, detail), raw_output, ok)"""
    src = os.path.join(VERIF, 'replays', rs_name)
    lock = open('/tmp/vx-replay.lock', 'w')
    fcntl.flock(lock, fcntl.LOCK_EX)
    try:
        if os.path.exists(SCRATCH):
            shutil.rmtree(SCRATCH)
        subprocess.run(['rsync', '-a', '--exclude', 'target', '--exclude', '.git', REPO.rstrip('/') + '/', SCRATCH + '/'], check=True)
        # cargo decides by mtime whether the crate must be rebuilt; the scratch copy keeps the mtimes of its origin, so a
        # copy of an OLDER tree following a copy of a newer one would silently reuse the newer build.  Touch the
        # sources so that the crate is always rebuilt from exactly what was copied.
        for root, _dirs, files in os.walk(os.path.join(SCRATCH, 'src')):
            for fn in files:
                os.utime(os.path.join(root, fn), None)
        for fn in ('Cargo.toml', 'build.rs'):
            if os.path.exists(os.path.join(SCRATCH, fn)):
                os.utime(os.path.join(SCRATCH, fn), None)
        test_name = 'vx_' + os.path.splitext(rs_name)[0]
        shutil.copy(src, os.path.join(SCRATCH, 'tests', test_name + '.rs'))
        env = dict(os.environ, CARGO_NET_OFFLINE='true', CARGO_TARGET_DIR=os.path.join('/repo', 'target'))
        env.pop('RUSTUP_TOOLCHAIN', None)
        p = subprocess.run(['cargo', 'test', '--offline', '--test', test_name, '--', '--nocapture', '--test-threads', '1'],
                           cwd=SCRATCH, env=env, capture_output=True, text=True, timeout=timeout)
        out = p.stdout + '\n' + p.stderr
        res = {}
        for m in re.finditer(r'REPLAY (\S+) (PRESENT|ABSENT)[ \t]*(.*)$', out, re.M):
            res[m.group(1)] = (m.group(2), m.group(3).strip())
        return res, out, p.returncode == 0
    finally:
        shutil.rmtree(SCRATCH, ignore_errors=True)
        fcntl.flock(lock, fcntl.LOCK_UN)
        lock.close()


def run_demos(pid, entries, timeout=3000):
    """Findings / repaired defects whose replay is a FAILING-TEST demo (`"demo": "replays/demos/<ID>.rs"`): an
    integration test file, written against the public API, whose tests state what the property demands and therefore
    FAIL (or panic, or time out) on a tree that has the defect.  All demos of one property are compiled as ONE test
    crate (each file wrapped in its own `mod`), run against a scratch copy of the working tree.
    -> dict id -> (PRESENT|ABSENT, detail), raw output, ok"""
    if not entries:
        return {}, '', True
    lock = open('/tmp/vx-replay.lock', 'w')
    fcntl.flock(lock, fcntl.LOCK_EX)
    try:
        if os.path.exists(SCRATCH):
            shutil.rmtree(SCRATCH)
        subprocess.run(['rsync', '-a', '--exclude', 'target', '--exclude', '.git', REPO.rstrip('/') + '/', SCRATCH + '/'], check=True)
        for root, _dirs, files in os.walk(os.path.join(SCRATCH, 'src')):
            for fn in files:
                os.utime(os.path.join(root, fn), None)
        for fn in ('Cargo.toml', 'build.rs'):
            if os.path.exists(os.path.join(SCRATCH, fn)):
                os.utime(os.path.join(SCRATCH, fn), None)
        parts = ['#![allow(unused, clippy::all)]']
        mods = {}
        for e in entries:
            m = 'demo_' + e['id'].lower()
            mods[m] = e['id']
            body = open(os.path.join(VERIF, e['demo'])).read()
            body = '\n'.join(l for l in body.split('\n') if not l.lstrip().startswith('#!['))
            parts.append('mod %s {\n%s\n}' % (m, body))
        test_name = 'vx_demos_' + pid
        open(os.path.join(SCRATCH, 'tests', test_name + '.rs'), 'w').write('\n'.join(parts))
        env = dict(os.environ, CARGO_NET_OFFLINE='true', CARGO_TARGET_DIR=os.path.join('/repo', 'target'), RUST_BACKTRACE='0')
        env.pop('RUSTUP_TOOLCHAIN', None)
        try:
            p = subprocess.run(['timeout', '600', 'cargo', 'test', '--offline', '--test', test_name, '--', '--test-threads', '4'],
                               cwd=SCRATCH, env=env, capture_output=True, text=True, timeout=timeout)
            out = p.stdout + '\n' + p.stderr
        except subprocess.TimeoutExpired:
            return {}, 'timeout', False
        if 'test result:' not in out and 'running ' not in out:
            return {}, out, False   # did not compile / run
        res = {}
        failed = {}
        seen = set()
        for mm in re.finditer(r'^test (demo_\w+)::(\S+) \.\.\. (ok|FAILED)', out, re.M):
            seen.add(mm.group(1))
            if mm.group(3) == 'FAILED':
                failed.setdefault(mm.group(1), []).append(mm.group(2))
        # a test that hangs is killed by `timeout`: its line never gets a verdict
        hung = set(mm.group(1) for mm in re.finditer(r'^test (demo_\w+)::\S+ has been running', out, re.M))
        for m, fid in mods.items():
            if m in failed:
                first = re.search(r"thread '%s::[^']*' panicked at [^\n]*\n([^\n]*)" % m, out)
                res[fid] = ('PRESENT', 'demo test(s) %s fail: %s' % (', '.join(failed[m]), (first.group(1) if first else '').strip()[:300]))
            elif m in seen and p.returncode in (0, 101):
                res[fid] = ('ABSENT', 'all demo tests pass')
            elif p.returncode == 124:
                res[fid] = ('PRESENT', 'demo did not finish within 600 s (the build hangs)')
        return res, out, True
    finally:
        shutil.rmtree(SCRATCH, ignore_errors=True)
        fcntl.flock(lock, fcntl.LOCK_UN)
        lock.close()


def run_known(pid, rs_files, kf):
    """yields (line_or_None, ok, info).  ok=False means the replay machinery itself failed."""
    results = {}
    for f in rs_files:
        try:
            res, out, ok = run_file(f)
        except Exception as e:  # noqa
            yield None, False, 'replay %s could not run: %s' % (f, e)
            continue
        if not ok and not res:
            yield None, False, 'replay %s failed to build/run: %s' % (f, out[-600:].replace('\n', ' '))
            continue
        results.update(res)
    demo_entries = [e for e in kf.get('findings', []) + kf.get('fixed', []) if e.get('demo') and pid in e['properties']]
    if demo_entries:
        try:
            dres, dout, dok = run_demos(pid, demo_entries)
        except Exception as e:  # noqa
            dres, dout, dok = {}, str(e), False
        if not dok:
            yield None, False, 'demo replays of %s failed to build/run: %s' % (pid, dout[-600:].replace('\n', ' '))
        results.update(dres)
    for fd in kf.get('findings', []):
        if pid not in fd['properties']:
            continue
        st = results.get(fd['id'])
        if st is None:
            yield None, False, 'no replay output for known finding %s' % fd['id']
        elif st[0] == 'PRESENT':
            yield 'KNOWN-FINDING: property=%s %s: %s [real code: %s]' % (pid, fd['id'], fd['what_fails'], st[1]), True, ''
        else:
            # the defect is gone on this tree: say nothing
            yield None, True, ''
    for fx in kf.get('fixed', []):
        if pid not in fx['properties']:
            continue
        st = results.get(fx['id'])
        if st is None:
            yield None, False, 'no replay output for fixed defect %s' % fx['id']
        elif st[0] == 'PRESENT':
            # a repaired defect is back: this is a violation found by a concrete input
            yield 'REGRESSION %s %s' % (fx['id'], st[1]), True, 'regression'
        else:
            yield None, True, ''
