"""Parser for /verif/contracts/*.vc — contracts keyed by function path / loop ordinal / closure
ordinal / statement text (never by line number).  See DESIGN.md §3.1."""
import re, json, os

DIRECTIVES = {
    'unit', 'serves', 'module', 'features', 'prelude', 'specs', 'flags', 'assumptions', 'item',
    'pre_attrs', 'requires', 'ensures', 'decreases', 'keep_fields', 'derives', 'loop', 'closure',
    'params', 'cret', 'crequires', 'censures', 'adapter', 'bind', 'insert', 'wrap', 'carries', 'adapt', 'eta', 'omit', 'drop', 'brk_type', 'let_type', 'assumed_begin', 'assumed_end', 'sentinel_specs', 'nosentinel', 'note', 'carve',
}

_dir_re = re.compile(r'^\s*@([a-z_]+)\b(.*)$')


def _block(lines):
    # strip common leading blank lines / trailing blank lines, keep relative indentation
    while lines and not lines[0].strip():
        lines = lines[1:]
    while lines and not lines[-1].strip():
        lines = lines[:-1]
    if not lines:
        return ''
    ind = min(len(l) - len(l.lstrip()) for l in lines if l.strip())
    return '\n'.join(l[ind:] if l.strip() else '' for l in lines)


class Unit:
    def __init__(self, path):
        self.path = path
        self.name = None
        self.serves = []
        self.modules = {}
        self.features = []
        self.prelude = []
        self.specs = []
        self.flags = []
        self.assumptions = None
        self.items = []
        self.notes = []
        self.carves = []
        self.sentinel_specs = None


def parse(path):
    u = Unit(path)
    raw = []
    for ln in open(path).read().split('\n'):
        m = re.match(r'^@include(_assumed)?\s+(\S+)', ln)
        if m:
            inc = os.path.join(os.path.dirname(os.path.dirname(os.path.abspath(path))), m.group(2))
            if m.group(1):
                # assume-guarantee: the included functions keep their contracts but their bodies are
                # NOT re-verified here (they are verified in their own unit, which the same check runs)
                raw.append('@assumed_begin ' + m.group(2))
                raw += open(inc).read().split('\n')
                raw.append('@assumed_end')
            else:
                raw += open(inc).read().split('\n')
        else:
            raw.append(ln)
    # tokenise into (directive, argline, blocklines)
    toks = []
    cur = None
    for ln in raw:
        if ln.startswith(';;'):
            continue
        m = _dir_re.match(ln)
        if m and m.group(1) in DIRECTIVES:
            cur = [m.group(1), m.group(2).strip(), []]
            toks.append(cur)
        elif cur is not None:
            cur[2].append(ln)
    item = None
    clos = None
    assumed = None
    u.assumed_from = []
    for d, arg, blk in toks:
        text = _block(blk)
        if d == 'assumed_begin':
            assumed = arg.strip()
            u.assumed_from.append(assumed)
            continue
        if d == 'assumed_end':
            assumed = None
            continue
        if d == 'unit':
            u.name = arg
        elif d == 'serves':
            u.serves = arg.split()
        elif d == 'omit':
            u.omit = getattr(u, 'omit', []) + arg.split()
        elif d == 'module':
            k, p = arg.split()
            u.modules[k] = p
        elif d == 'features':
            u.features = arg.split()
        elif d == 'prelude':
            u.prelude += arg.split()
        elif d == 'specs':
            u.specs += arg.split()
        elif d == 'sentinel_specs':
            u.sentinel_specs = arg.split()
        elif d == 'flags':
            u.flags += arg.split()
        elif d == 'assumptions':
            u.assumptions = int(arg)
        elif d == 'note':
            u.notes.append((arg + ' ' + text).strip())
        elif d == 'carve':
            u.carves.append((arg + ' ' + text).strip())
        elif d == 'item':
            parts = arg.split()
            item = {'path': parts[0], 'inserts': [], 'loops': {}, 'closures': {}, 'wraps': []}
            if assumed:
                item['assumed'] = assumed
            for kv in parts[1:]:
                k, v = kv.split('=', 1)
                if k == 'for_into_iter':
                    v = [int(x) for x in v.split(',')]
                elif k == 'for_to_loop' and v != 'all':
                    v = [int(x) for x in v.split(',')]
                elif k in ('expect_loops', 'expect_closures'):
                    v = int(v)
                elif k == 'derives':
                    v = [] if v == '-' else v.split(',')
                item[k] = v
            # `override=yes`: a unit that needs more fields of a shared data type than the shared include keeps
            # re-declares the item; the later declaration replaces the earlier one in place (same extraction, other
            # @keep_fields)
            prev = [i for i, o in enumerate(u.items) if o['path'] == item['path']]
            if item.pop('override', None) == 'yes' and prev:
                u.items[prev[0]] = item
            else:
                u.items.append(item)
            clos = None
        elif item is None:
            raise ValueError('%s: @%s before any @item' % (path, d))
        elif d in ('pre_attrs', 'requires', 'ensures', 'decreases'):
            # a repeated directive adds clauses (it never silently replaces the earlier ones)
            item[d] = (item[d].rstrip('\n') + '\n' + text) if item.get(d) else text
        elif d == 'nosentinel':
            item['nosentinel'] = (arg + ' ' + text).strip() or 'yes'
        elif d == 'adapt':
            a = arg.split()
            item.setdefault('adapts', []).append({'chain': a[0], 'wrapper': a[1], 'recv': a[2] if len(a) > 2 and a[2] != 'soft' else '', 'soft': 'soft' in a[2:]})
        elif d == 'drop':
            # @drop followed by a line holding the statement prefix in backquotes
            m = re.search(r'`([^`]*)`', arg + ' ' + text)
            item.setdefault('drop_stmts', []).append(m.group(1))
        elif d == 'eta':
            # @eta Enum::Variant | PayloadType | ResultType
            a = [x.strip() for x in arg.split('|')]
            item.setdefault('etas', []).append({'path': a[0], 'ty': a[1], 'ret': a[2], 'nospec': len(a) > 3 and a[3] == 'nospec'})
        elif d == 'brk_type':
            k, _, ty = arg.partition(' ')
            item.setdefault('brk_types', {})[str(int(k))] = ty.strip()
        elif d == 'let_type':
            k, _, ty = arg.partition(' ')
            item.setdefault('let_types', {})[k.strip()] = ty.strip()
        elif d == 'carries':
            item['carries'] = arg.split()
        elif d == 'keep_fields':
            item['keep_fields'] = (arg + ' ' + text).split()
        elif d == 'derives':
            item['derives'] = arg.split()
        elif d == 'loop':
            item['loops'][str(int(arg))] = text
        elif d == 'closure':
            clos = {}
            item['closures'][str(int(arg))] = clos
        elif d == 'params':
            clos['params'] = [l.strip() for l in text.split('\n') if l.strip()]
        elif d == 'cret':
            clos['ret'] = arg
        elif d == 'adapter':
            aa = arg.split()
            clos['adapter'] = aa[0]
            if len(aa) > 1:
                clos['adapter_recv'] = aa[1]
        elif d == 'bind':
            clos['bind'] = arg
        elif d == 'crequires':
            clos['requires'] = text
        elif d == 'censures':
            clos['ensures'] = text
        elif d == 'wrap':
            a = arg.split()
            first, _, rest = text.partition('\n')
            m = re.match(r'^\s*`(.*)`\s*$', first)
            if not m:
                raise ValueError('%s: @wrap needs a `match` line' % path)
            w = {'nth': int(a[0]) if a else 0, 'match': m.group(1), 'text': rest}
            if len(a) > 1:
                w['name'] = a[1]
            item['wraps'].append(w)
        elif d == 'insert':
            a = arg.split()
            ins = {'at': a[0]}
            if a[0] in ('loop_start', 'loop_end'):
                ins['loop'] = int(a[1])
                ins['text'] = text
            elif a[0] in ('before', 'after', 'arm_start', 'arm_end'):
                ins['nth'] = int(a[1]) if len(a) > 1 else 0
                first, _, rest = text.partition('\n')
                m = re.match(r'^\s*`(.*?)`(?:\s+within\s+`(.*)`)?\s*$', first)
                if not m:
                    raise ValueError('%s: @insert %s needs a `match` line' % (path, arg))
                ins['match'] = m.group(1)
                if m.group(2):
                    ins['within'] = m.group(2)
                ins['text'] = rest
            else:
                ins['text'] = text
            item['inserts'].append(ins)
    return u


def _clauses(kw, text):
    if not text or not text.strip():
        return ''
    return kw + '\n' + '\n'.join('  ' + l for l in text.split('\n'))


def contract_text(item, sentinel=False):
    parts = []
    if item.get('requires'):
        parts.append(_clauses('requires', item['requires']))
    ens = item.get('ensures', '')
    if sentinel and not item.get('nosentinel'):
        ens = (ens.rstrip() + '\n' if ens.strip() else '') + 'false, // [__sentinel]'
    if ens.strip():
        parts.append(_clauses('ensures', ens))
    if item.get('decreases'):
        parts.append(_clauses('decreases', item['decreases']))
    return '\n'.join(parts)


def _has_fn_contract(item):
    return any(item.get(k) for k in ('requires', 'ensures', 'decreases', 'ret', 'loops', 'inserts', 'closures', 'wraps', 'adapts', 'etas'))


def is_fn_item(item):
    if item.get('assumed'):
        return False
    return any(item.get(k) for k in ('requires', 'ensures', 'decreases', 'ret', 'loops', 'inserts', 'closures', 'wraps', 'adapts', 'etas')) and not item.get('keep_fields')


def job(u, sentinel=False, soft_inserts=False, drop_inserts=None, repo=None):
    items = []
    todo = [(it, False) for it in u.items]
    if sentinel:
        # vacuity sentinels: a renamed COPY of every contracted function with `ensures false`
        # appended (callers keep seeing the real contract of the original)
        todo += [(it, True) for it in u.items if is_fn_item(it) and not it.get('nosentinel')]
    for it, sent in todo:
        j = {'path': it['path']}
        if sent:
            j['as'] = '__sentinel_' + it['path'].split('::')[-1]
        for k in (() if sent else ('as',)) + ('ret', 'impl_mode', 'for_to_loop', 'for_into_iter', 'impl_trait', 'bool_or_assign', 'sync_async', 'expect_loops', 'expect_closures', 'keep_fields', 'derives', 'pre_attrs'):
            if k in it:
                j[k] = it[k]
        if it.get('assumed') and _has_fn_contract(it):
            j['pre_attrs'] = '#[verifier::external_body]\n' + j.get('pre_attrs', '')
        c = contract_text(it, sent)
        if c:
            j['contract'] = c
        if it['loops']:
            j['loops'] = it['loops']
        if it['closures']:
            cl = {}
            for k, v in it['closures'].items():
                parts = []
                if v.get('requires'):
                    parts.append(_clauses('requires', v['requires']))
                if v.get('ensures'):
                    parts.append(_clauses('ensures', v['ensures']))
                e = {'contract': '\n'.join(parts)}
                if 'params' in v:
                    e['params'] = v['params']
                if 'ret' in v:
                    e['ret'] = v['ret']
                if 'adapter' in v:
                    e['adapter'] = v['adapter']
                if 'bind' in v:
                    e['bind'] = v['bind']
                if 'adapter_recv' in v:
                    e['adapter_recv'] = v['adapter_recv']
                cl[k] = e
            j['closures'] = cl
        if it['inserts']:
            j['inserts'] = it['inserts']
            if soft_inserts:
                j['soft_inserts'] = True
            if drop_inserts and it['path'] in drop_inserts:
                j['drop_inserts'] = drop_inserts[it['path']]
        if it.get('wraps'):
            j['wraps'] = it['wraps']
        if it.get('adapts'):
            j['adapts'] = it['adapts']
        if it.get('etas'):
            j['etas'] = it['etas']
        if it.get('drop_stmts'):
            j['drop_stmts'] = it['drop_stmts']
        nested = [o['path'].split('::')[-1] for o in u.items if o['path'].startswith(it['path'] + '::')]
        if nested:
            j['drop_nested'] = nested
        if it.get('brk_types'):
            j['brk_types'] = it['brk_types']
        if it.get('let_types'):
            j['let_types'] = it['let_types']
        items.append(j)
    repo = repo or os.environ.get('VERIF_REPO', '/repo')
    import glob
    mods = {}
    for k, p in u.modules.items():
        if p.startswith('registry:'):
            g = sorted(glob.glob(os.path.expanduser('~/.cargo/registry/src/*/' + p[len('registry:'):])))
            mods[k] = g[0] if g else p
        else:
            mods[k] = p if os.path.isabs(p) else os.path.join(repo, p)
    return {'modules': mods, 'features': u.features, 'items': items}
